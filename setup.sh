#!/bin/sh
# Builds everything the checks need, offline, from files on disk only.
set -e
cd "$(dirname "$0")"
export CARGO_NET_OFFLINE=true
mkdir -p .build evidence
gcc -O2 -w -fPIC -shared -o .build/libfsx.so engines/fsx/fsx_shim.c -ldl -lpthread
(cd /repo && CARGO_TARGET_DIR=/verif/.build/repo cargo build --release --offline --bin breadlog)
if [ -f engines/vh/Cargo.toml ]; then
  (cd engines/vh && CARGO_TARGET_DIR=/verif/.build/vh cargo build --release --offline)
fi
echo "setup done"
