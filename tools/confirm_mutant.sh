#!/bin/sh
# usage: tools/confirm_mutant.sh <name> <dir with patch.diff demo.sh notes.md>
# Confirms in a scratch worktree (outside /repo and /verif): patch applies, builds, baseline suite passes, demo fails with / passes without.
name=$1; src=$(realpath $2)
export CARGO_NET_OFFLINE=true
W=/tmp/wt/confirm
if [ ! -d $W ]; then git -C /repo worktree add --detach $W HEAD -q || exit 2; fi
cd $W && git checkout -q --detach $(git -C /repo rev-parse HEAD) && git checkout -q -- . && git clean -qfd -e target -e target-orig
if [ ! -x $W/target-orig/release/breadlog ] || [ "$(cat $W/target-orig/.rev 2>/dev/null)" != "$(git rev-parse HEAD)" ]; then
  CARGO_TARGET_DIR=$W/target-orig cargo build --release --offline -q 2>&1 | tail -2; git rev-parse HEAD > $W/target-orig/.rev
fi
git apply $src/patch.diff || { echo "RESULT $name: patch does not apply"; exit 1; }
out=$(CARGO_TARGET_DIR=$W/target cargo test --workspace --no-fail-fast --offline 2>&1)
pass=$(echo "$out" | grep -E "^test result" | awk '{s+=$4} END {print s}'); fail=$(echo "$out" | grep -E "^test result" | awk '{s+=$6} END {print s}')
CARGO_TARGET_DIR=$W/target cargo build --release --offline -q 2>&1 | tail -2
bash $src/demo.sh $W/target-orig/release/breadlog > /tmp/wt/confirm_demo_orig.txt 2>&1; d0=$?
bash $src/demo.sh $W/target/release/breadlog > /tmp/wt/confirm_demo_mut.txt 2>&1; d1=$?
git checkout -q -- . ; git clean -qfd -e target -e target-orig
echo "RESULT $name: tests passed=$pass failed=$fail demo(original)=$d0 demo(mutant)=$d1"
if [ "$pass" = "223" ] && [ "$fail" = "0" ] && [ $d0 -eq 0 ] && [ $d1 -eq 1 ]; then
  mkdir -p /verif/seeded/$name
  cp $src/patch.diff $src/demo.sh /verif/seeded/$name/
  [ -f $src/notes.md ] && cp $src/notes.md /verif/seeded/$name/
  echo "CONFIRMED $name"
else
  echo "NOT CONFIRMED $name"; tail -5 /tmp/wt/confirm_demo_mut.txt
fi
