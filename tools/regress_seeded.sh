#!/bin/bash
# usage: tools/regress_seeded.sh [names...]   (run from a copy of /verif with VERIF_REPO pointing at a scratch copy of the repository, e.g. under `vp run --with-repo`)
# For every seeded change: apply it to $VERIF_REPO, run the quick tier of the checks named in its meta.json `caught_by` until one reports a violation, revert.
# Prints one line per change: CAUGHT <name> by <check> | MISSED <name> (ran: ...) | SKIP <name> (reason)
R=${VERIF_REPO:?set VERIF_REPO to a scratch copy of the repository}
[ "$R" = "/repo" ] && { echo "refusing to patch /repo itself"; exit 2; }
cd "$(dirname "$0")/.." || exit 2
names="$@"; [ -z "$names" ] && names=$(ls seeded)
for n in $names; do
  d=seeded/$n
  [ -f $d/meta.json ] || { echo "SKIP $n (no meta.json)"; continue; }
  case $n in *disputed*|*outside-quantifier*) echo "SKIP $n (not claimed)"; continue;; esac
  ids=$(python3 -c "
import json,re,sys
m=json.load(open('$d/meta.json'))
ids=[]
for c in m.get('caught_by',[]):
    for i in re.findall(r'C\d\d',c):
        if i not in ids: ids.append(i)
print(' '.join(ids))")
  [ -z "$ids" ] && { echo "SKIP $n (no caught_by)"; continue; }
  git -C $R checkout -q -- . ; git -C $R apply $PWD/$d/patch.diff 2>/dev/null || { echo "SKIP $n (patch does not apply)"; continue; }
  hit=""
  for i in $ids; do
    out=$(./check $i --tier quick 2>&1); rc=$?
    if [ $rc -eq 1 ] && echo "$out" | grep -q "^VIOLATION property=$i"; then hit=$i; break; fi
    if [ $rc -eq 2 ]; then echo "MACHINERY $n $i: $(echo "$out" | tail -1)"; fi
  done
  git -C $R checkout -q -- .
  if [ -n "$hit" ]; then echo "CAUGHT $n by $hit"; else echo "MISSED $n (ran: $ids)"; fi
done
