#!/bin/bash
# usage: tools/check_benign.sh [names...]   (run from a copy of /verif with VERIF_REPO pointing at a scratch copy of the repository, e.g. under `vp run --with-repo`)
# For every property-preserving change under benign/: apply it to $VERIF_REPO, run the quick tier of ALL checks, revert.
# Prints one line per change: QUIET <name> | ALARM <name> <check ids that reported a violation or failed>
R=${VERIF_REPO:?set VERIF_REPO to a scratch copy of the repository}
[ "$R" = "/repo" ] && { echo "refusing to patch /repo itself"; exit 2; }
cd "$(dirname "$0")/.." || exit 2
names="$@"; [ -z "$names" ] && names=$(ls benign | grep -v not-preserving)
for n in $names; do
  git -C $R checkout -q -- . ; git -C $R apply $PWD/benign/$n/patch.diff 2>/dev/null || { echo "SKIP $n (patch does not apply)"; continue; }
  bad=""
  for i in $(python3 -c "import json;print(' '.join(c['property_id'] for c in json.load(open('MANIFEST.json'))['checks']))"); do
    out=$(./check $i --tier quick 2>&1); rc=$?
    [ $rc -ne 0 ] && bad="$bad $i(rc=$rc)"
  done
  git -C $R apply -R $PWD/benign/$n/patch.diff 2>/dev/null; git -C $R checkout -q -- .
  if [ -z "$bad" ]; then echo "QUIET $n"; else echo "ALARM $n$bad"; fi
done
