#!/bin/sh
# every seeded patch must apply to /repo's HEAD
rc=0
for m in /verif/seeded/*/patch.diff; do git -C /repo apply --check $m 2>/dev/null || { echo "DOES NOT APPLY: $m"; rc=1; }; done
[ $rc -eq 0 ] && echo "all $(ls /verif/seeded/*/patch.diff | wc -l) seeded patches apply to $(git -C /repo rev-parse --short HEAD)"
exit $rc
