#!/bin/sh
# usage: tools/run_all.sh [quick|thorough] [ids...]
cd "$(dirname "$0")/.."
tier=${1:-quick}; shift
ids=${*:-C01 C02 C03 C04 C05 C06 C07 C08 C09 C10 C11 C12 C13 C14 C15 C16 C17 C18}
for p in $ids; do
  s=$(date +%s)
  out=$(./check $p --tier $tier 2>&1); rc=$?
  e=$(date +%s)
  echo "$p rc=$rc $((e-s))s $(echo "$out" | tail -1)"
  if [ $rc -ne 0 ]; then echo "$out" | grep -E "VIOLATION|signature|MACHINERY" | head -6 | cut -c1-300; fi
done
