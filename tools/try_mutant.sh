#!/bin/sh
# usage: tools/try_mutant.sh <patch.diff> [tier] [ids...]   — applies the patch to /repo, runs the checks, reverts.
patch=$(realpath "$1"); shift
tier=${1:-quick}; [ $# -gt 0 ] && shift
cd /repo || exit 2
if [ -n "$(git status --porcelain --untracked-files=no)" ]; then echo "/repo has uncommitted changes"; exit 2; fi
git apply "$patch" || { echo "patch does not apply"; exit 2; }
trap 'git -C /repo apply -R "$patch" 2>/dev/null; git -C /repo checkout -- . ' EXIT INT TERM      # (apply -R also removes files the patch created)
/verif/tools/run_all.sh $tier "$@" 2>&1
