#!/usr/bin/env python3
"""Regenerates /verif/MANIFEST.json from the table below (kept in one place so that it stays valid)."""
import json
import os
import sys

HERE = os.path.dirname(os.path.dirname(os.path.abspath(__file__)))

# id -> (engine, category, technique, text, note, design_ref)
CHECKS = {
    "C01": ("E4-trees", "exploration",
            "bounded-exhaustive enumeration of project trees x lock states x styles through the real binary, plus exhaustive fault enumeration on the directory walk (every opendir/readdir below source_dir fails)",
            "Every tree with <=2 (thorough <=3) files and <=2 (thorough 3) statements per file over the reference-state alphabet "
            "{none,0,1,2,7,2^32-2,2^32-1} x style x lock state is edited by the real release binary; inserted IDs (token-strip diff) must be "
            "pairwise distinct, disjoint from every recognised existing ID, within 1..=4294967295, above the maximum when no lock is used; "
            "an exhausted range must fail the run. Under every single (thorough: pair of) directory-listing fault in trees with sub-directories the same holds with respect to every file the walk can still reach. Exhaustive inside the stated product, nothing sampled.",
            "Existing IDs are taken from Breadlog's own parser (vh harness); trees larger than the bound add no new control path in the allocator "
            "(argument, not proof).", "§3 C01"),
    "C02": ("E2-hist over E1", "model_checking",
            "explicit-state BFS over developer/tool histories whose transition function is the real binary (incl. every fault/kill/signal point of each edit run)",
            "States are (tree, lock, retired-ID set); events are developer edits and check/edit runs, each edit run additionally with every "
            "kill / I/O failure / stop signal at every operation of that run; the ghost-map invariant (no retired ID is ever carried again, no ID on two "
            "statements) is evaluated in every reached state up to the depth bound. A second, exhaustive sweep covers what small histories cannot: every pair of "
            "per-file statement counts 1..20 (thorough 1..70) x lock start values, the edit run killed before/after every rename and every lock-file operation; "
            "a lock that does not cover an ID already on disk is converted into a concrete reuse by a witness continuation.",
            "Process death at libc-call boundaries with the page cache intact; lock file not edited by hand (the property's premise).", "§2.2, §3 C02"),
    "C03": ("E4 + E3", "exploration",
            "bounded-exhaustive enumeration of file contents (all token sequences to a length bound, shape products, single-token-edit neighbourhoods of real code) through the real edit command, token-strip oracle",
            "For every enumerated file (incl. files that are not valid UTF-8) the edit run's output must be the original plus inserted reference tokens only (backtracking token-strip); files without a missing "
            "statement stay byte-identical; statements with a valid reference receive nothing.",
            "Byte strings outside the token alphabet / length bound are not covered.", "§3 C03"),
    "C04": ("E1 monitor + E4 configs", "fault_enumeration",
            "full configuration product plus every fault/signal/kill point of --check runs under the libc interposer; trace monitor + inode/mtime snapshots",
            "No mutating libc call on anything but stdout/stderr appears in the interposed trace of any --check run, and content+metadata snapshots of project, TMPDIR, cwd and an "
            "outside directory are identical, for the full configuration product, for every single injected fault, signal and kill at every operation of four representative runs, "
            "and for a --check run on every state that an edit run leaves behind when it is killed, failed or interrupted at every one of its operations.",
            "Interposition is complete for the mutating libc surface (strace self-test).", "§3 C04"),
    "C05": ("E4 differential", "exploration",
            "bounded-exhaustive enumeration of trees; differential check --check report vs edit-run diff; exhaustive fault enumeration on the directory walk in check mode",
            "On two copies of every enumerated tree the multiset of (file,line,column) reported by --check equals the insertion points of the edit run (positions recomputed from byte offsets), "
            "totals agree, exit status non-zero iff total>0, and the edit run's printed count equals the tokens inserted.",
            "Trees outside the enumerated spaces.", "§3 C05"),
    "C06": ("E4 two-step + E3", "exploration",
            "bounded-exhaustive enumeration of well-formed statement trees; edit -> check -> edit fixpoint and parser read-back",
            "After edit#1 exits 0: --check exits 0, edit#2 changes no byte and leaves the lock value, and the real parser reads every inserted ID back with exactly that value.",
            "Only statements of the enumerated canonical grammar.", "§3 C06"),
    "C07": ("E1-fsx", "fault_enumeration",
            "stateless exhaustive exploration of the real binary under a libc fault injector: every operation x {kill-before, kill-after, fail(errno menu), short write}, deviation bound 1 (quick) / 2 (thorough)",
            "For every filesystem operation of scenarios S1-S7 and every action, the process is run to termination on a fresh tree; afterwards every source file must be its original bytes or "
            "the complete update (token-strip equal to the original with the insertion offsets of the fault-free run) and nothing else in the project or outside changed. "
            "The same exploration is repeated in the environment 'temp directory on another file system' (every rename out of TMPDIR fails with EXDEV in every execution).",
            "Crash = process death at an interposed libc call boundary, page cache intact; no torn sector, no power loss.", "§2.1, §3 C07"),
    "C08": ("E1-fsx", "fault_enumeration",
            "stateless exhaustive exploration of fault sets on temp-file creation, temp-file writes and renames (single, sticky, multiple; real cross-filesystem TMPDIR)",
            "Any failed create/write/rename implies a non-zero exit; exit 0 implies printed count = tokens present, a following --check passes and no temporary file is left.",
            "Fault = libc call returning -1 with a realistic errno.", "§3 C08"),
    "C09": ("E5-c09", "translation_validation",
            "compile-and-run differential over an exhaustively enumerated family of log-crate programs, before/after the edit",
            "Every enumerated statement is compiled and executed under a capturing logger before and after the edit run; records must be equal except for the added reference.",
            "rustc + log 0.4.22 (feature kv) from the offline registry; :err/:sval/:serde captures cannot be built offline.", "§2.5, §3 C09"),
    "C10": ("E3-vh + E4 binding", "exploration",
            "bounded-exhaustive enumeration of canonical statement shapes (core product + all pairs/triples + layout x context product) in-process against a generator-knows-the-facts reference model, bound to the CLI",
            "Exactly one entry per canonical statement, missing, at the first character of the literal (line/column in characters) or as first key-value after the target, for every enumerated combination.",
            "Non-canonical spellings are outside the alphabet.", "§3 C10"),
    "C11": ("E3-vh + E4", "exploration",
            "bounded-exhaustive enumeration of decoy/statement sequences against a ground-truth model",
            "For all sequences of 1-3 (thorough 4) items from the decoy alphabet and real statements, the parser's entries are exactly the real statements; through the CLI no decoy byte changes.",
            "Decoy alphabet as listed in DESIGN.", "§3 C11"),
    "C12": ("E3-vh", "exploration",
            "exhaustive enumeration of all message prefixes up to length 5 (thorough 6) over a 13-symbol alphabet, all boundary near-misses, and the inserted token for all N in the quick/thorough ranges",
            "present(m) iff m starts with `[ref: `, 1-10 ASCII digits, `]`, value <= 4294967295, decided by the real parser for every enumerated message; the inserted token satisfies the rule and the documented regex.",
            "Alphabet and length bound.", "§3 C12"),
    "C13": ("E3-vh + E4", "exploration",
            "full product over ref-state x position among 0-3 key-values x key-value shapes x target x layout x directive, in-process against a reference model, bound to the CLI",
            "Missing -> `ref = N; `/`ref = N, ` after the target and before the first key-value; `ref = <uint>` recognised anywhere; non-literal ref untouched, unusable, never doubled.",
            "Suffixed/hex/underscored integer literals are outside the alphabet.", "§3 C13"),
    "C14": ("E3-vh + E4", "exploration",
            "bounded-exhaustive enumeration of directive/non-directive/blank/code line sequences before statements against the nearest-non-blank-line model",
            "A statement is skipped iff the nearest non-blank line above its first line is a comment whose trimmed case-folded text is the directive; no-kvp switches style in structured mode only.",
            "Trailing directive comments after code on the previous line are outside the alphabet.", "§3 C14"),
    "C15": ("E4 trees", "exploration",
            "exhaustive enumeration of directory layouts x extension lists x source_dir forms x config path forms x invoking cwd through the real binary",
            "Files changed by edit = files reported by check = regular non-symlink files below source_dir with an exactly matching extension; everything else byte- and inode-identical; lock next to the config.",
            "A file named just `.rs` and non-UTF-8 names are outside the alphabet.", "§3 C15"),
    "C16": ("E4 configs", "exploration",
            "full product of configuration switches x lock states x trees x mode against a reference model of the guide, plus follow-up histories, configuration-syntax variants and every read fault on the configuration file",
            "Exit status, start ID, lock file before/after and style/scope agree with the guide for every combination; invalid set-ups exit non-zero and change nothing.",
            "Reference model of the guide (~40 lines).", "§3 C16"),
    "C17": ("E3-vh + E4", "exploration",
            "exhaustive enumeration of all token sequences up to length 4 (thorough 5) over a 29-token alphabet, complete 1-/2-edit neighbourhoods of skeleton statements at token and at character level, UTF-8 alignment sweep at power-of-two boundaries, invalid-UTF-8 and size families, recursion probes, and a scaling oracle (13 ordinary shapes at 16/64/256 KiB (thorough 1 MiB) under callgrind: 4x the size executes fewer than 9x the instructions)",
            "No unwind escapes the parser in-process; through the CLI no exit 101/abort/signal and bounded wall time; unreadable files are reported and skipped while the others are processed.",
            "Byte strings beyond the bound are not covered.", "§3 C17"),
    "C18": ("E1-fsx", "model_checking",
            "stateless model checking of signal delivery: SIGINT/SIGTERM before and after every interposed operation (incl. stdout writes) of check and edit runs, bound 1 (thorough: + one I/O fault); two signals: every ordered pair of placements before operations",
            "For every placement the process must exit by itself, exit 0 only if a fault-free --check of the result passes (and, in check mode, every file was read), leave every source file original or complete, "
            "and leave a lock covering every ID written.",
            "Signals are delivered synchronously at libc-call boundaries from `opendir` of the source directory on.", "§3 C18"),
}

NOT_BUILT = {}


def main():
    built = [p for p in sorted(CHECKS) if os.path.exists(os.path.join(HERE, "lib", "props", p.lower() + ".py"))]
    checks = []
    for p in built:
        eng, cat, tech, text, note, ref = CHECKS[p]
        checks.append({
            "property_id": p,
            "quick_cmd": "./check %s --tier quick" % p,
            "thorough_cmd": "./check %s --tier thorough" % p,
            "evidence_file": "/verif/evidence/%s.json" % p,
            "replay_cmd_template": "./check %s --replay {path}" % p,
            "engine": eng,
            "level_claimed": {"category": cat, "text": text, "design_ref": "DESIGN.md " + ref},
            "level_note": note,
            "technique": tech,
        })
    na = [{"property_id": p, "reason": "check not built yet in this session (planned: %s)" % CHECKS[p][2]}
          for p in sorted(CHECKS) if p not in built]
    m = {
        "version": 1,
        "setup_cmd": "./setup.sh",
        "hooks": {
            "guard": "cargo feature `verif`",
            "enable": "engines/vh depends on breadlog = { path = \"/repo\", features = [\"verif\"] }; the CLI subject is built without it",
            "baseline_off_cmd": "cd /repo && cargo test --workspace --no-fail-fast --offline",
            "source_commits": [l.strip() for l in open(os.path.join(HERE, "hook_commits.txt"))] if os.path.exists(os.path.join(HERE, "hook_commits.txt")) else [],
            "add_only": True,
        },
        "engines": [
            {"name": "E1-fsx", "path": "engines/fsx/fsx_shim.c + lib/fsx.py", "serves_properties": ["C01", "C02", "C04", "C05", "C07", "C08", "C16", "C18"],
             "kind_free_text": "LD_PRELOAD libc interposer + deviation-bounded exhaustive explorer of the real release binary"},
            {"name": "E2-hist", "path": "lib/props/c02.py", "serves_properties": ["C02"],
             "kind_free_text": "explicit-state BFS over (tree, lock, retired IDs); transitions execute the real binary"},
            {"name": "E3-vh", "path": "engines/vh", "serves_properties": ["C03", "C06", "C10", "C11", "C12", "C13", "C14", "C17"],
             "kind_free_text": "in-process bounded-exhaustive shape enumeration of the real parser against a ground-truth model"},
            {"name": "E4-cli", "path": "lib/cli.py", "serves_properties": ["C01", "C03", "C05", "C06", "C15", "C16", "C17"],
             "kind_free_text": "batch driver of the real binary: tree enumerators, report parser, token-strip diff"},
            {"name": "E5-c09", "path": "lib/props/c09.py", "serves_properties": ["C09"],
             "kind_free_text": "rustc compile-and-run differential over an enumerated program family"},
        ],
        "checks": checks,
        "not_applicable": na,
        "notes": "Exit codes: 0 held / 1 violation / 2 machinery error. Known findings: /verif/known_findings.json. See DESIGN.md.",
    }
    with open(os.path.join(HERE, "MANIFEST.json"), "w") as f:
        json.dump(m, f, indent=1)
        f.write("\n")
    print("MANIFEST.json: %d checks, %d not_applicable" % (len(checks), len(na)))


if __name__ == "__main__":
    main()
