#!/bin/sh
# rebase seeded patches that no longer apply to /repo's HEAD (after a fix: commit) with a 3-way merge in the scratch worktree
W=/tmp/wt/confirm
[ -d $W ] || git -C /repo worktree add --detach $W HEAD -q
cd $W && git checkout -q --detach $(git -C /repo rev-parse HEAD) && git checkout -q -- . && git clean -qfd -e target -e target-orig
for m in /verif/seeded/*/patch.diff; do
  git -C /repo apply --check $m 2>/dev/null && continue
  d=$(dirname $m)
  grep -v "^$" $m > /dev/null
  # drop Breadlog.lock hunks (the lock moves with every fix that adds a log statement)
  python3 - "$m" > /tmp/wt/rebase_in.diff <<'PY'
import sys,re
t=open(sys.argv[1]).read()
parts=re.split(r'(?m)^(?=diff --git )',t)
sys.stdout.write("".join(p for p in parts if not p.startswith("diff --git a/Breadlog.lock")))
PY
  if git apply --3way /tmp/wt/rebase_in.diff >/tmp/wt/rebase_out.txt 2>&1 && ! git status --short | grep -q "^UU"; then
    git reset -q; [ -f $d/patch.orig.diff ] || cp $m $d/patch.orig.diff
    git diff > $m; echo "rebased: $d"
  else
    echo "CONFLICT: $d"; git status --short | grep "^UU"
  fi
  git reset -q; git checkout -q -- . ; git clean -qfd -e target -e target-orig
done
