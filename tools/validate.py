#!/opt/veriftools/pyvenv/bin/python
import json, sys, glob, jsonschema
jsonschema.validate(json.load(open('/verif/MANIFEST.json')), json.load(open('/root/.vp/MANIFEST.schema.json')))
es = json.load(open('/root/.vp/EVIDENCE.schema.json'))
for f in sorted(glob.glob('/verif/evidence/*.json')):
    try:
        jsonschema.validate(json.load(open(f)), es)
    except Exception as e:
        print("INVALID", f, str(e)[:300]); sys.exit(1)
print("manifest + %d evidence files valid" % len(glob.glob('/verif/evidence/*.json')))
