/*
 * fsx_shim.c — LD_PRELOAD interposer used by engine E1 (see DESIGN.md §2.1).
 *
 * It numbers every in-scope filesystem operation of the process globally (one mutex, so at most one
 * in-scope operation is in flight), appends one record per operation to FSX_LOG with raw syscalls, and
 * executes the injection plan in FSX_PLAN at the requested operation indices.
 *
 * Environment:
 *   FSX_LOG    path of the record file (created/truncated by the harness, we append)
 *   FSX_ROOTS  ':'-separated absolute path prefixes that are "in scope"
 *   FSX_PLAN   "k:action[:arg][,k:action...]" and/or "sticky:<op>:<errno>"
 *              actions: kill-before | kill-after | fail:<errno> | short | sig-before:<signo> | sig-after:<signo>
 *
 * Record format (tab separated, one line):
 *   k  tid  op  class  path  path2  flags  len  result  errno  note
 * class: r (read-side), w (mutating), log (write to fd 1/2), x (mutating, out of scope)
 */
#define _GNU_SOURCE
#include <dirent.h>
#include <dlfcn.h>
#include <errno.h>
#include <fcntl.h>
#include <limits.h>
#include <pthread.h>
#include <signal.h>
#include <stdarg.h>
#include <stdio.h>
#include <stdlib.h>
#include <string.h>
#include <sys/stat.h>
#include <sys/syscall.h>
#include <sys/types.h>
#include <sys/uio.h>
#include <unistd.h>

#define FD_MAX 1024
#define PATH_LEN 1024
#define MAX_ROOTS 8
#define MAX_PLAN 16

static pthread_mutex_t g_mu = PTHREAD_MUTEX_INITIALIZER;
static int g_inited = 0;
static int g_log_fd = -1;
static long g_counter = 0;
static char g_roots[MAX_ROOTS][PATH_LEN];
static int g_nroots = 0;
static char g_cwd[PATH_LEN];

/* fd table: 0 = untracked, 1 = tracked in-scope, 2 = tracked out-of-scope (opened for writing) */
static char g_fdstate[FD_MAX];
static char g_fdpath[FD_MAX][PATH_LEN];
static char g_fdwr[FD_MAX];

enum act { A_NONE = 0, A_KILL_BEFORE, A_KILL_AFTER, A_FAIL, A_SHORT, A_SIG_BEFORE, A_SIG_AFTER };
struct plan_entry { long k; enum act a; int arg; };
static struct plan_entry g_plan[MAX_PLAN];
static int g_nplan = 0;
struct sticky_entry { char op[24]; int err; };
static struct sticky_entry g_sticky[MAX_PLAN];
static int g_nsticky = 0;
static char g_sticky_prefix[PATH_LEN];
static char g_xdev_parent[PATH_LEN];   /* FSX_XDEV_PARENT: entries directly in this directory live on "another file system" than everything else */

/* ------------------------------------------------------------------------------------------ */

static void raw_write(int fd, const char *buf, size_t len)
{
    while (len > 0)
    {
        long r = syscall(SYS_write, fd, buf, len);
        if (r <= 0)
        {
            if (r < 0 && errno == EINTR) continue;
            return;
        }
        buf += r;
        len -= (size_t)r;
    }
}

static void die(const char *msg)
{
    raw_write(2, "fsx_shim: ", 10);
    raw_write(2, msg, strlen(msg));
    raw_write(2, "\n", 1);
    syscall(SYS_exit_group, 97);
}

static void parse_plan(const char *s)
{
    char buf[1024];
    strncpy(buf, s, sizeof buf - 1);
    buf[sizeof buf - 1] = 0;
    char *save = NULL;
    for (char *tok = strtok_r(buf, ",", &save); tok; tok = strtok_r(NULL, ",", &save))
    {
        if (strncmp(tok, "sticky:", 7) == 0)
        {
            char *op = tok + 7;
            char *c = strchr(op, ':');
            if (!c || g_nsticky >= MAX_PLAN) die("bad sticky plan entry");
            *c = 0;
            strncpy(g_sticky[g_nsticky].op, op, sizeof g_sticky[0].op - 1);
            g_sticky[g_nsticky].err = atoi(c + 1);
            g_nsticky++;
            continue;
        }
        char *c = strchr(tok, ':');
        if (!c || g_nplan >= MAX_PLAN) die("bad plan entry");
        *c = 0;
        struct plan_entry *p = &g_plan[g_nplan];
        p->k = atol(tok);
        char *a = c + 1;
        char *c2 = strchr(a, ':');
        int arg = 0;
        if (c2) { *c2 = 0; arg = atoi(c2 + 1); }
        p->arg = arg;
        if (!strcmp(a, "kill-before")) p->a = A_KILL_BEFORE;
        else if (!strcmp(a, "kill-after")) p->a = A_KILL_AFTER;
        else if (!strcmp(a, "fail")) p->a = A_FAIL;
        else if (!strcmp(a, "short")) p->a = A_SHORT;
        else if (!strcmp(a, "sig-before")) p->a = A_SIG_BEFORE;
        else if (!strcmp(a, "sig-after")) p->a = A_SIG_AFTER;
        else die("unknown plan action");
        g_nplan++;
    }
}

/* Lexically normalise `in` (absolute) into `out`: remove "." and "//", resolve "..". */
static void normalise(const char *in, char *out)
{
    size_t o = 0;
    const char *p = in;
    out[o++] = '/';
    while (*p)
    {
        while (*p == '/') p++;
        if (!*p) break;
        const char *e = p;
        while (*e && *e != '/') e++;
        size_t n = (size_t)(e - p);
        if (n == 1 && p[0] == '.') { /* skip */ }
        else if (n == 2 && p[0] == '.' && p[1] == '.')
        {
            if (o > 1)
            {
                o--; /* drop trailing slash */
                while (o > 0 && out[o - 1] != '/') o--;
            }
        }
        else
        {
            if (o + n + 2 >= PATH_LEN) break;
            memcpy(out + o, p, n);
            o += n;
            out[o++] = '/';
        }
        p = e;
    }
    if (o > 1) o--; /* strip trailing slash */
    out[o] = 0;
}

static void abspath_at(int dirfd, const char *path, char *out)
{
    char tmp[PATH_LEN * 2];
    if (!path) path = "";
    if (path[0] == '/')
    {
        strncpy(tmp, path, sizeof tmp - 1);
        tmp[sizeof tmp - 1] = 0;
    }
    else
    {
        const char *base = g_cwd;
        if (dirfd != AT_FDCWD && dirfd >= 0 && dirfd < FD_MAX && g_fdstate[dirfd]) base = g_fdpath[dirfd];
        else if (dirfd == AT_FDCWD)
        {
            /* the process may have changed directory; ask the kernel each time */
            if (syscall(SYS_getcwd, g_cwd, sizeof g_cwd) < 0) g_cwd[0] = 0;
        }
        snprintf(tmp, sizeof tmp, "%s/%s", base, path);
    }
    normalise(tmp, out);
}

static int in_scope(const char *abs)
{
    for (int i = 0; i < g_nroots; i++)
    {
        size_t n = strlen(g_roots[i]);
        if (strncmp(abs, g_roots[i], n) == 0 && (abs[n] == 0 || abs[n] == '/')) return 1;
    }
    return 0;
}

static void init_locked(void)
{
    if (g_inited) return;
    g_inited = 1;
    const char *lg = getenv("FSX_LOG");
    if (lg && *lg)
    {
        int fd = (int)syscall(SYS_openat, AT_FDCWD, lg, O_WRONLY | O_APPEND | O_CREAT | O_CLOEXEC, 0644);
        if (fd < 0) die("cannot open FSX_LOG");
        int hi = (int)syscall(SYS_fcntl, fd, F_DUPFD_CLOEXEC, 900);
        if (hi >= 0) { syscall(SYS_close, fd); fd = hi; }
        g_log_fd = fd;
    }
    if (syscall(SYS_getcwd, g_cwd, sizeof g_cwd) < 0) g_cwd[0] = 0;
    const char *roots = getenv("FSX_ROOTS");
    if (roots)
    {
        char buf[PATH_LEN * MAX_ROOTS];
        strncpy(buf, roots, sizeof buf - 1);
        buf[sizeof buf - 1] = 0;
        char *save = NULL;
        for (char *t = strtok_r(buf, ":", &save); t && g_nroots < MAX_ROOTS; t = strtok_r(NULL, ":", &save))
        {
            normalise(t, g_roots[g_nroots]);
            g_nroots++;
        }
    }
    const char *sp = getenv("FSX_STICKY_PATH_PREFIX");
    if (sp && *sp) normalise(sp, g_sticky_prefix);
    const char *xp = getenv("FSX_XDEV_PARENT");
    if (xp && *xp) normalise(xp, g_xdev_parent);
    const char *plan = getenv("FSX_PLAN");
    if (plan && *plan) parse_plan(plan);
}

static void esc(const char *s, char *out, size_t cap)
{
    size_t o = 0;
    for (; s && *s && o + 5 < cap; s++)
    {
        unsigned char c = (unsigned char)*s;
        if (c == '\t') { out[o++] = '\\'; out[o++] = 't'; }
        else if (c == '\n') { out[o++] = '\\'; out[o++] = 'n'; }
        else if (c == '\r') { out[o++] = '\\'; out[o++] = 'r'; }
        else if (c == '\\') { out[o++] = '\\'; out[o++] = '\\'; }
        else out[o++] = (char)c;
    }
    out[o] = 0;
}

static void log_rec(long k, const char *op, const char *cls, const char *p1, const char *p2, long flags, long len,
                    long res, int err, const char *note)
{
    if (g_log_fd < 0) return;
    char e1[PATH_LEN * 2], e2[PATH_LEN * 2], line[PATH_LEN * 5];
    esc(p1 ? p1 : "", e1, sizeof e1);
    esc(p2 ? p2 : "", e2, sizeof e2);
    int n = snprintf(line, sizeof line, "%ld\t%ld\t%s\t%s\t%s\t%s\t%ld\t%ld\t%ld\t%d\t%s\n", k,
                     (long)syscall(SYS_gettid), op, cls, e1, e2, flags, len, res, err, note ? note : "");
    if (n > 0) raw_write(g_log_fd, line, (size_t)n);
}

static struct plan_entry *plan_for(long k)
{
    for (int i = 0; i < g_nplan; i++)
        if (g_plan[i].k == k) return &g_plan[i];
    return NULL;
}

/* sticky faults model an environment (e.g. the temp directory on another file system): they apply to operations whose
 * first path lies under FSX_STICKY_PATH_PREFIX (all paths when it is unset) */
static int sticky_for(const char *op, const char *p1)
{
    for (int i = 0; i < g_nsticky; i++)
        if (!strcmp(g_sticky[i].op, op))
        {
            size_t n = strlen(g_sticky_prefix);
            if (n == 0 || (p1 && strncmp(p1, g_sticky_prefix, n) == 0)) return g_sticky[i].err;
        }
    return 0;
}

/* an environment in which the entries directly inside one directory (the configuration directory) are on a different file system from
 * everything else: a rename across that boundary fails with EXDEV */
static int directly_in(const char *path, const char *dir)
{
    size_t n = strlen(dir);
    if (!n || !path || strncmp(path, dir, n) != 0 || path[n] != '/') return 0;
    return strchr(path + n + 1, '/') == NULL;
}

static int xdev_for(const char *op, const char *p1, const char *p2)
{
    if (!g_xdev_parent[0] || strcmp(op, "rename") != 0 || !p1 || !p2 || !*p2) return 0;
    return directly_in(p1, g_xdev_parent) != directly_in(p2, g_xdev_parent) ? EXDEV : 0;
}

static void kill_self(void)
{
    syscall(SYS_kill, (long)syscall(SYS_getpid), SIGKILL);
    for (;;) syscall(SYS_pause);
}

/*
 * Operation protocol.  The caller holds g_mu.
 *   op_begin  : assigns the index, handles kill-before / sig-before, returns what to do:
 *                 0  perform the real operation
 *                 >0 do not perform; fail with this errno
 *                 -1 perform a short write
 *   op_end    : logs the record, handles kill-after / sig-after.
 */
struct opctx { long k; struct plan_entry *pe; const char *op; const char *cls; const char *p1; const char *p2; long flags; long len; };

static int op_begin(struct opctx *c)
{
    c->k = g_counter++;
    c->pe = plan_for(c->k);
    int st = sticky_for(c->op, c->p1);
    if (!st) st = xdev_for(c->op, c->p1, c->p2);
    if (c->pe)
    {
        switch (c->pe->a)
        {
        case A_KILL_BEFORE:
            log_rec(c->k, c->op, c->cls, c->p1, c->p2, c->flags, c->len, 0, 0, "KILLED-BEFORE");
            kill_self();
            break;
        case A_SIG_BEFORE:
            log_rec(c->k, "signal", "sig", "", "", c->pe->arg, 0, 0, 0, "SIG-BEFORE");
            raise(c->pe->arg);
            break;
        case A_FAIL:
            return c->pe->arg > 0 ? c->pe->arg : EIO;
        case A_SHORT:
            return -1;
        default:
            break;
        }
    }
    if (st) return st;
    return 0;
}

static void op_end(struct opctx *c, long res, int err, const char *note)
{
    log_rec(c->k, c->op, c->cls, c->p1, c->p2, c->flags, c->len, res, err, note);
    if (c->pe)
    {
        if (c->pe->a == A_KILL_AFTER)
        {
            log_rec(c->k, c->op, c->cls, c->p1, c->p2, c->flags, c->len, res, err, "KILLED-AFTER");
            kill_self();
        }
        else if (c->pe->a == A_SIG_AFTER)
        {
            log_rec(c->k, "signal", "sig", "", "", c->pe->arg, 0, 0, 0, "SIG-AFTER");
            raise(c->pe->arg);
        }
    }
}

#define LOCK()                        \
    pthread_mutex_lock(&g_mu);        \
    init_locked()
#define UNLOCK() pthread_mutex_unlock(&g_mu)

#define REAL(name, type)                              \
    static type real_##name = NULL;                   \
    if (!real_##name) real_##name = (type)dlsym(RTLD_NEXT, #name)

static int is_write_flags(int flags)
{
    int acc = flags & O_ACCMODE;
    return acc == O_WRONLY || acc == O_RDWR || (flags & (O_CREAT | O_TRUNC | O_APPEND)) != 0;
}

static void track_fd(int fd, const char *abs, int state, int wr)
{
    if (fd >= 0 && fd < FD_MAX)
    {
        g_fdstate[fd] = (char)state;
        g_fdwr[fd] = (char)wr;
        strncpy(g_fdpath[fd], abs, PATH_LEN - 1);
        g_fdpath[fd][PATH_LEN - 1] = 0;
    }
}

/* ---------------------------------------------------------------------------------------------- open */

typedef int (*open_fn)(const char *, int, ...);
typedef int (*openat_fn)(int, const char *, int, ...);

static int do_open(const char *opname, int dirfd, const char *path, int flags, mode_t mode, int use_at, void *realfn)
{
    LOCK();
    char abs[PATH_LEN];
    abspath_at(dirfd, path, abs);
    int scope = in_scope(abs);
    int wr = is_write_flags(flags);
    int fd;
    if (!scope && !wr)
    {
        UNLOCK();
        if (use_at) return ((openat_fn)realfn)(dirfd, path, flags, mode);
        return ((open_fn)realfn)(path, flags, mode);
    }
    struct opctx c = { 0, NULL, opname, scope ? (wr ? "w" : "r") : "x", abs, "", flags, 0 };
    /* distinguish create from open-for-read in the op name so that plans and sticky faults can target them */
    if (wr) c.op = (flags & O_CREAT) ? "creat" : "openw";
    int what = op_begin(&c);
    int err = 0;
    const char *note = "";
    if (what > 0)
    {
        fd = -1;
        err = what;
        note = "INJECTED";
    }
    else
    {
        if (use_at) fd = ((openat_fn)realfn)(dirfd, path, flags, mode);
        else fd = ((open_fn)realfn)(path, flags, mode);
        err = fd < 0 ? errno : 0;
        if (fd >= 0) track_fd(fd, abs, scope ? 1 : 2, wr);
    }
    op_end(&c, fd, err, note);
    UNLOCK();
    if (fd < 0) errno = err;
    return fd;
}

int open(const char *path, int flags, ...)
{
    REAL(open, open_fn);
    mode_t mode = 0;
    if (flags & (O_CREAT | O_TMPFILE)) { va_list ap; va_start(ap, flags); mode = va_arg(ap, mode_t); va_end(ap); }
    return do_open("open", AT_FDCWD, path, flags, mode, 0, (void *)real_open);
}

int open64(const char *path, int flags, ...)
{
    REAL(open64, open_fn);
    mode_t mode = 0;
    if (flags & (O_CREAT | O_TMPFILE)) { va_list ap; va_start(ap, flags); mode = va_arg(ap, mode_t); va_end(ap); }
    return do_open("open", AT_FDCWD, path, flags, mode, 0, (void *)real_open64);
}

int openat(int dirfd, const char *path, int flags, ...)
{
    REAL(openat, openat_fn);
    mode_t mode = 0;
    if (flags & (O_CREAT | O_TMPFILE)) { va_list ap; va_start(ap, flags); mode = va_arg(ap, mode_t); va_end(ap); }
    return do_open("open", dirfd, path, flags, mode, 1, (void *)real_openat);
}

int openat64(int dirfd, const char *path, int flags, ...)
{
    REAL(openat64, openat_fn);
    mode_t mode = 0;
    if (flags & (O_CREAT | O_TMPFILE)) { va_list ap; va_start(ap, flags); mode = va_arg(ap, mode_t); va_end(ap); }
    return do_open("open", dirfd, path, flags, mode, 1, (void *)real_openat64);
}

int creat(const char *path, mode_t mode)
{
    REAL(open, open_fn);
    return do_open("open", AT_FDCWD, path, O_CREAT | O_WRONLY | O_TRUNC, mode, 0, (void *)real_open);
}

int creat64(const char *path, mode_t mode)
{
    REAL(open64, open_fn);
    return do_open("open", AT_FDCWD, path, O_CREAT | O_WRONLY | O_TRUNC, mode, 0, (void *)real_open64);
}

typedef FILE *(*fopen_fn)(const char *, const char *);
static FILE *do_fopen(const char *path, const char *mode, fopen_fn realfn)
{
    LOCK();
    char abs[PATH_LEN];
    abspath_at(AT_FDCWD, path, abs);
    int scope = in_scope(abs);
    int wr = mode && (strchr(mode, 'w') || strchr(mode, 'a') || strchr(mode, '+'));
    if (!scope && !wr)
    {
        UNLOCK();
        return realfn(path, mode);
    }
    struct opctx c = { 0, NULL, wr ? "creat" : "open", scope ? (wr ? "w" : "r") : "x", abs, "", 0, 0 };
    int what = op_begin(&c);
    FILE *f = NULL;
    int err = 0;
    if (what > 0) err = what;
    else
    {
        f = realfn(path, mode);
        err = f ? 0 : errno;
        if (f) track_fd(fileno(f), abs, scope ? 1 : 2, wr);
    }
    op_end(&c, f ? fileno(f) : -1, err, what > 0 ? "INJECTED" : "fopen");
    UNLOCK();
    if (!f) errno = err;
    return f;
}

FILE *fopen(const char *path, const char *mode)
{
    REAL(fopen, fopen_fn);
    return do_fopen(path, mode, real_fopen);
}

FILE *fopen64(const char *path, const char *mode)
{
    REAL(fopen64, fopen_fn);
    return do_fopen(path, mode, real_fopen64);
}

/* ---------------------------------------------------------------------------------------- read/write */

typedef ssize_t (*rw_fn)(int, void *, size_t);
typedef ssize_t (*prw_fn)(int, void *, size_t, off_t);

static int fd_class(int fd, const char **cls)
{
    if (fd == 1 || fd == 2) { *cls = "log"; return 1; }
    if (fd >= 0 && fd < FD_MAX && g_fdstate[fd]) { *cls = g_fdstate[fd] == 1 ? NULL : "x"; return 1; }
    return 0;
}

ssize_t read(int fd, void *buf, size_t n)
{
    REAL(read, rw_fn);
    if (fd < 0 || fd >= FD_MAX || fd <= 2) return real_read(fd, buf, n);
    LOCK();
    if (g_fdstate[fd] != 1)
    {
        UNLOCK();
        return real_read(fd, buf, n);
    }
    struct opctx c = { 0, NULL, "read", "r", g_fdpath[fd], "", fd, (long)n };
    int what = op_begin(&c);
    ssize_t r;
    int err = 0;
    if (what > 0) { r = -1; err = what; }
    else { r = real_read(fd, buf, n); err = r < 0 ? errno : 0; }
    op_end(&c, r, err, what > 0 ? "INJECTED" : "");
    UNLOCK();
    if (r < 0) errno = err;
    return r;
}

ssize_t pread(int fd, void *buf, size_t n, off_t off)
{
    REAL(pread, prw_fn);
    if (fd < 0 || fd >= FD_MAX || fd <= 2) return real_pread(fd, buf, n, off);
    LOCK();
    if (g_fdstate[fd] != 1)
    {
        UNLOCK();
        return real_pread(fd, buf, n, off);
    }
    struct opctx c = { 0, NULL, "read", "r", g_fdpath[fd], "", fd, (long)n };
    int what = op_begin(&c);
    ssize_t r;
    int err = 0;
    if (what > 0) { r = -1; err = what; }
    else { r = real_pread(fd, buf, n, off); err = r < 0 ? errno : 0; }
    op_end(&c, r, err, what > 0 ? "INJECTED" : "pread");
    UNLOCK();
    if (r < 0) errno = err;
    return r;
}

ssize_t pread64(int fd, void *buf, size_t n, off_t off) { return pread(fd, buf, n, off); }

ssize_t write(int fd, const void *buf, size_t n)
{
    REAL(write, rw_fn);
    if (fd < 0 || fd >= FD_MAX) return real_write(fd, (void *)buf, n);
    LOCK();
    const char *cls = NULL;
    if (!fd_class(fd, &cls))
    {
        UNLOCK();
        return real_write(fd, (void *)buf, n);
    }
    if (!cls) cls = "w";
    struct opctx c = { 0, NULL, !strcmp(cls, "log") ? "logwrite" : "write", cls, (fd <= 2) ? (fd == 1 ? "<stdout>" : "<stderr>") : g_fdpath[fd], "", fd, (long)n };
    int what = op_begin(&c);
    ssize_t r;
    int err = 0;
    const char *note = "";
    if (what > 0) { r = -1; err = what; note = "INJECTED"; }
    else if (what == -1 && n >= 2)
    {
        r = real_write(fd, (void *)buf, n / 2);
        err = r < 0 ? errno : 0;
        note = "SHORT";
    }
    else { r = real_write(fd, (void *)buf, n); err = r < 0 ? errno : 0; }
    op_end(&c, r, err, note);
    UNLOCK();
    if (r < 0) errno = err;
    return r;
}

typedef ssize_t (*pwrite_fn)(int, const void *, size_t, off_t);
ssize_t pwrite(int fd, const void *buf, size_t n, off_t off)
{
    REAL(pwrite, pwrite_fn);
    if (fd < 0 || fd >= FD_MAX) return real_pwrite(fd, buf, n, off);
    LOCK();
    const char *cls = NULL;
    if (!fd_class(fd, &cls))
    {
        UNLOCK();
        return real_pwrite(fd, buf, n, off);
    }
    if (!cls) cls = "w";
    struct opctx c = { 0, NULL, "write", cls, fd <= 2 ? "<std>" : g_fdpath[fd], "", fd, (long)n };
    int what = op_begin(&c);
    ssize_t r;
    int err = 0;
    if (what > 0) { r = -1; err = what; }
    else { r = real_pwrite(fd, buf, n, off); err = r < 0 ? errno : 0; }
    op_end(&c, r, err, what > 0 ? "INJECTED" : "pwrite");
    UNLOCK();
    if (r < 0) errno = err;
    return r;
}
ssize_t pwrite64(int fd, const void *buf, size_t n, off_t off) { return pwrite(fd, buf, n, off); }

typedef ssize_t (*writev_fn)(int, const struct iovec *, int);
ssize_t writev(int fd, const struct iovec *iov, int cnt)
{
    REAL(writev, writev_fn);
    if (fd < 0 || fd >= FD_MAX) return real_writev(fd, iov, cnt);
    LOCK();
    const char *cls = NULL;
    if (!fd_class(fd, &cls))
    {
        UNLOCK();
        return real_writev(fd, iov, cnt);
    }
    if (!cls) cls = "w";
    long total = 0;
    for (int i = 0; i < cnt; i++) total += (long)iov[i].iov_len;
    struct opctx c = { 0, NULL, !strcmp(cls, "log") ? "logwrite" : "write", cls, (fd <= 2) ? (fd == 1 ? "<stdout>" : "<stderr>") : g_fdpath[fd], "", fd, total };
    int what = op_begin(&c);
    ssize_t r;
    int err = 0;
    if (what > 0) { r = -1; err = what; }
    else { r = real_writev(fd, iov, cnt); err = r < 0 ? errno : 0; }
    op_end(&c, r, err, what > 0 ? "INJECTED" : "writev");
    UNLOCK();
    if (r < 0) errno = err;
    return r;
}

/* --------------------------------------------------------------------------------------- close / dup */

typedef int (*close_fn)(int);
int close(int fd)
{
    REAL(close, close_fn);
    if (fd < 0 || fd >= FD_MAX || fd <= 2) return real_close(fd);
    LOCK();
    if (!g_fdstate[fd])
    {
        UNLOCK();
        return real_close(fd);
    }
    struct opctx c = { 0, NULL, "close", g_fdstate[fd] == 1 ? (g_fdwr[fd] ? "w" : "r") : "x", g_fdpath[fd], "", fd, 0 };
    char pathcopy[PATH_LEN];
    strncpy(pathcopy, g_fdpath[fd], PATH_LEN);
    c.p1 = pathcopy;
    (void)op_begin(&c); /* close is never failed: the descriptor must really go away */
    int r = real_close(fd);
    int err = r < 0 ? errno : 0;
    g_fdstate[fd] = 0;
    g_fdwr[fd] = 0;
    op_end(&c, r, err, "");
    UNLOCK();
    if (r < 0) errno = err;
    return r;
}

static void copy_fd(int from, int to)
{
    if (from >= 0 && from < FD_MAX && to >= 0 && to < FD_MAX && to > 2)
    {
        g_fdstate[to] = g_fdstate[from];
        g_fdwr[to] = g_fdwr[from];
        memcpy(g_fdpath[to], g_fdpath[from], PATH_LEN);
    }
}

typedef int (*dup_fn)(int);
int dup(int fd)
{
    REAL(dup, dup_fn);
    LOCK();
    int r = real_dup(fd);
    if (r >= 0) copy_fd(fd, r);
    UNLOCK();
    return r;
}

typedef int (*dup2_fn)(int, int);
int dup2(int fd, int fd2)
{
    REAL(dup2, dup2_fn);
    LOCK();
    int r = real_dup2(fd, fd2);
    if (r >= 0 && fd != fd2) copy_fd(fd, r);
    UNLOCK();
    return r;
}

typedef int (*dup3_fn)(int, int, int);
int dup3(int fd, int fd2, int fl)
{
    REAL(dup3, dup3_fn);
    LOCK();
    int r = real_dup3(fd, fd2, fl);
    if (r >= 0) copy_fd(fd, r);
    UNLOCK();
    return r;
}

typedef int (*fcntl_fn)(int, int, ...);
int fcntl(int fd, int cmd, ...)
{
    REAL(fcntl, fcntl_fn);
    va_list ap;
    va_start(ap, cmd);
    void *arg = va_arg(ap, void *);
    va_end(ap);
    int r = real_fcntl(fd, cmd, arg);
    if ((cmd == F_DUPFD || cmd == F_DUPFD_CLOEXEC) && r >= 0)
    {
        LOCK();
        copy_fd(fd, r);
        UNLOCK();
    }
    return r;
}
int fcntl64(int fd, int cmd, ...)
{
    va_list ap;
    va_start(ap, cmd);
    void *arg = va_arg(ap, void *);
    va_end(ap);
    return fcntl(fd, cmd, arg);
}

/* ------------------------------------------------------------------------------- path-based mutators */

/* Generic helper for "mutating call on one or two paths": always recorded (class w in scope, x otherwise). */
#define PATH_OP_PROLOGUE(opname, dfd1, path1, dfd2, path2)                                     \
    LOCK();                                                                                     \
    char abs1[PATH_LEN], abs2[PATH_LEN];                                                        \
    abspath_at(dfd1, path1, abs1);                                                              \
    if (path2) abspath_at(dfd2, path2, abs2); else abs2[0] = 0;                                 \
    int scope = in_scope(abs1) || (path2 && in_scope(abs2));                                    \
    struct opctx c = { 0, NULL, opname, scope ? "w" : "x", abs1, abs2, 0, 0 };                  \
    int what = op_begin(&c);                                                                    \
    int r, err = 0;

#define PATH_OP_EPILOGUE()                                                                      \
    op_end(&c, r, err, what > 0 ? "INJECTED" : "");                                             \
    UNLOCK();                                                                                   \
    if (r < 0) errno = err;                                                                     \
    return r;

typedef int (*rename_fn)(const char *, const char *);
int rename(const char *a, const char *b)
{
    REAL(rename, rename_fn);
    PATH_OP_PROLOGUE("rename", AT_FDCWD, a, AT_FDCWD, b)
    if (what > 0) { r = -1; err = what; }
    else { r = real_rename(a, b); err = r < 0 ? errno : 0; }
    PATH_OP_EPILOGUE()
}

typedef int (*renameat_fn)(int, const char *, int, const char *);
int renameat(int d1, const char *a, int d2, const char *b)
{
    REAL(renameat, renameat_fn);
    PATH_OP_PROLOGUE("rename", d1, a, d2, b)
    if (what > 0) { r = -1; err = what; }
    else { r = real_renameat(d1, a, d2, b); err = r < 0 ? errno : 0; }
    PATH_OP_EPILOGUE()
}

typedef int (*renameat2_fn)(int, const char *, int, const char *, unsigned int);
int renameat2(int d1, const char *a, int d2, const char *b, unsigned int fl)
{
    REAL(renameat2, renameat2_fn);
    PATH_OP_PROLOGUE("rename", d1, a, d2, b)
    if (what > 0) { r = -1; err = what; }
    else { r = real_renameat2(d1, a, d2, b, fl); err = r < 0 ? errno : 0; }
    PATH_OP_EPILOGUE()
}

typedef int (*unlink_fn)(const char *);
int unlink(const char *a)
{
    REAL(unlink, unlink_fn);
    PATH_OP_PROLOGUE("unlink", AT_FDCWD, a, AT_FDCWD, NULL)
    if (what > 0) { r = -1; err = what; }
    else { r = real_unlink(a); err = r < 0 ? errno : 0; }
    PATH_OP_EPILOGUE()
}

typedef int (*unlinkat_fn)(int, const char *, int);
int unlinkat(int d, const char *a, int fl)
{
    REAL(unlinkat, unlinkat_fn);
    PATH_OP_PROLOGUE("unlink", d, a, AT_FDCWD, NULL)
    if (what > 0) { r = -1; err = what; }
    else { r = real_unlinkat(d, a, fl); err = r < 0 ? errno : 0; }
    PATH_OP_EPILOGUE()
}

int remove(const char *a)
{
    typedef int (*remove_fn)(const char *);
    REAL(remove, remove_fn);
    PATH_OP_PROLOGUE("unlink", AT_FDCWD, a, AT_FDCWD, NULL)
    if (what > 0) { r = -1; err = what; }
    else { r = real_remove(a); err = r < 0 ? errno : 0; }
    PATH_OP_EPILOGUE()
}

int rmdir(const char *a)
{
    typedef int (*rmdir_fn)(const char *);
    REAL(rmdir, rmdir_fn);
    PATH_OP_PROLOGUE("rmdir", AT_FDCWD, a, AT_FDCWD, NULL)
    if (what > 0) { r = -1; err = what; }
    else { r = real_rmdir(a); err = r < 0 ? errno : 0; }
    PATH_OP_EPILOGUE()
}

int mkdir(const char *a, mode_t m)
{
    typedef int (*mkdir_fn)(const char *, mode_t);
    REAL(mkdir, mkdir_fn);
    PATH_OP_PROLOGUE("mkdir", AT_FDCWD, a, AT_FDCWD, NULL)
    if (what > 0) { r = -1; err = what; }
    else { r = real_mkdir(a, m); err = r < 0 ? errno : 0; }
    PATH_OP_EPILOGUE()
}

int mkdirat(int d, const char *a, mode_t m)
{
    typedef int (*mkdirat_fn)(int, const char *, mode_t);
    REAL(mkdirat, mkdirat_fn);
    PATH_OP_PROLOGUE("mkdir", d, a, AT_FDCWD, NULL)
    if (what > 0) { r = -1; err = what; }
    else { r = real_mkdirat(d, a, m); err = r < 0 ? errno : 0; }
    PATH_OP_EPILOGUE()
}

int link(const char *a, const char *b)
{
    typedef int (*link_fn)(const char *, const char *);
    REAL(link, link_fn);
    PATH_OP_PROLOGUE("link", AT_FDCWD, a, AT_FDCWD, b)
    if (what > 0) { r = -1; err = what; }
    else { r = real_link(a, b); err = r < 0 ? errno : 0; }
    PATH_OP_EPILOGUE()
}

int linkat(int d1, const char *a, int d2, const char *b, int fl)
{
    typedef int (*linkat_fn)(int, const char *, int, const char *, int);
    REAL(linkat, linkat_fn);
    PATH_OP_PROLOGUE("link", d1, a, d2, b)
    if (what > 0) { r = -1; err = what; }
    else { r = real_linkat(d1, a, d2, b, fl); err = r < 0 ? errno : 0; }
    PATH_OP_EPILOGUE()
}

int symlink(const char *a, const char *b)
{
    typedef int (*symlink_fn)(const char *, const char *);
    REAL(symlink, symlink_fn);
    PATH_OP_PROLOGUE("symlink", AT_FDCWD, b, AT_FDCWD, NULL)
    if (what > 0) { r = -1; err = what; }
    else { r = real_symlink(a, b); err = r < 0 ? errno : 0; }
    PATH_OP_EPILOGUE()
}

int symlinkat(const char *a, int d, const char *b)
{
    typedef int (*symlinkat_fn)(const char *, int, const char *);
    REAL(symlinkat, symlinkat_fn);
    PATH_OP_PROLOGUE("symlink", d, b, AT_FDCWD, NULL)
    if (what > 0) { r = -1; err = what; }
    else { r = real_symlinkat(a, d, b); err = r < 0 ? errno : 0; }
    PATH_OP_EPILOGUE()
}

int truncate(const char *a, off_t len)
{
    typedef int (*truncate_fn)(const char *, off_t);
    REAL(truncate, truncate_fn);
    PATH_OP_PROLOGUE("truncate", AT_FDCWD, a, AT_FDCWD, NULL)
    if (what > 0) { r = -1; err = what; }
    else { r = real_truncate(a, len); err = r < 0 ? errno : 0; }
    PATH_OP_EPILOGUE()
}
int truncate64(const char *a, off_t len) { return truncate(a, len); }

int chmod(const char *a, mode_t m)
{
    typedef int (*chmod_fn)(const char *, mode_t);
    REAL(chmod, chmod_fn);
    PATH_OP_PROLOGUE("chmod", AT_FDCWD, a, AT_FDCWD, NULL)
    if (what > 0) { r = -1; err = what; }
    else { r = real_chmod(a, m); err = r < 0 ? errno : 0; }
    PATH_OP_EPILOGUE()
}

int fchmodat(int d, const char *a, mode_t m, int fl)
{
    typedef int (*fchmodat_fn)(int, const char *, mode_t, int);
    REAL(fchmodat, fchmodat_fn);
    PATH_OP_PROLOGUE("chmod", d, a, AT_FDCWD, NULL)
    if (what > 0) { r = -1; err = what; }
    else { r = real_fchmodat(d, a, m, fl); err = r < 0 ? errno : 0; }
    PATH_OP_EPILOGUE()
}

int chown(const char *a, uid_t u, gid_t g)
{
    typedef int (*chown_fn)(const char *, uid_t, gid_t);
    REAL(chown, chown_fn);
    PATH_OP_PROLOGUE("chown", AT_FDCWD, a, AT_FDCWD, NULL)
    if (what > 0) { r = -1; err = what; }
    else { r = real_chown(a, u, g); err = r < 0 ? errno : 0; }
    PATH_OP_EPILOGUE()
}

int lchown(const char *a, uid_t u, gid_t g)
{
    typedef int (*chown_fn)(const char *, uid_t, gid_t);
    REAL(lchown, chown_fn);
    PATH_OP_PROLOGUE("chown", AT_FDCWD, a, AT_FDCWD, NULL)
    if (what > 0) { r = -1; err = what; }
    else { r = real_lchown(a, u, g); err = r < 0 ? errno : 0; }
    PATH_OP_EPILOGUE()
}

int fchownat(int d, const char *a, uid_t u, gid_t g, int fl)
{
    typedef int (*fchownat_fn)(int, const char *, uid_t, gid_t, int);
    REAL(fchownat, fchownat_fn);
    PATH_OP_PROLOGUE("chown", d, a, AT_FDCWD, NULL)
    if (what > 0) { r = -1; err = what; }
    else { r = real_fchownat(d, a, u, g, fl); err = r < 0 ? errno : 0; }
    PATH_OP_EPILOGUE()
}

int utimensat(int d, const char *a, const struct timespec ts[2], int fl)
{
    typedef int (*utimensat_fn)(int, const char *, const struct timespec[2], int);
    REAL(utimensat, utimensat_fn);
    PATH_OP_PROLOGUE("utimens", d, a ? a : "", AT_FDCWD, NULL)
    if (what > 0) { r = -1; err = what; }
    else { r = real_utimensat(d, a, ts, fl); err = r < 0 ? errno : 0; }
    PATH_OP_EPILOGUE()
}

/* ------------------------------------------------------------------------------- fd-based mutators */

#define FD_OP(opname, fd, call)                                                                  \
    if (fd < 0 || fd >= FD_MAX) return call;                                                      \
    LOCK();                                                                                       \
    if (!g_fdstate[fd] && fd > 2)                                                                 \
    {                                                                                             \
        UNLOCK();                                                                                 \
        return call;                                                                              \
    }                                                                                             \
    struct opctx c = { 0, NULL, opname, fd <= 2 ? "log" : (g_fdstate[fd] == 1 ? "w" : "x"),        \
                       fd <= 2 ? "<std>" : g_fdpath[fd], "", fd, 0 };                             \
    int what = op_begin(&c);                                                                      \
    int r, err = 0;                                                                               \
    if (what > 0) { r = -1; err = what; }                                                         \
    else { r = call; err = r < 0 ? errno : 0; }                                                   \
    op_end(&c, r, err, what > 0 ? "INJECTED" : "");                                               \
    UNLOCK();                                                                                     \
    if (r < 0) errno = err;                                                                       \
    return r;

int fsync(int fd)
{
    typedef int (*fsync_fn)(int);
    REAL(fsync, fsync_fn);
    FD_OP("fsync", fd, real_fsync(fd))
}

int fdatasync(int fd)
{
    typedef int (*fsync_fn)(int);
    REAL(fdatasync, fsync_fn);
    FD_OP("fsync", fd, real_fdatasync(fd))
}

int ftruncate(int fd, off_t len)
{
    typedef int (*ftruncate_fn)(int, off_t);
    REAL(ftruncate, ftruncate_fn);
    FD_OP("truncate", fd, real_ftruncate(fd, len))
}
int ftruncate64(int fd, off_t len) { return ftruncate(fd, len); }

int fchmod(int fd, mode_t m)
{
    typedef int (*fchmod_fn)(int, mode_t);
    REAL(fchmod, fchmod_fn);
    FD_OP("chmod", fd, real_fchmod(fd, m))
}

int fchown(int fd, uid_t u, gid_t g)
{
    typedef int (*fchown_fn)(int, uid_t, gid_t);
    REAL(fchown, fchown_fn);
    FD_OP("chown", fd, real_fchown(fd, u, g))
}

int futimens(int fd, const struct timespec ts[2])
{
    typedef int (*futimens_fn)(int, const struct timespec[2]);
    REAL(futimens, futimens_fn);
    FD_OP("utimens", fd, real_futimens(fd, ts))
}

int fallocate(int fd, int mode, off_t off, off_t len)
{
    typedef int (*fallocate_fn)(int, int, off_t, off_t);
    REAL(fallocate, fallocate_fn);
    FD_OP("fallocate", fd, real_fallocate(fd, mode, off, len))
}

int posix_fallocate(int fd, off_t off, off_t len)
{
    typedef int (*pfallocate_fn)(int, off_t, off_t);
    REAL(posix_fallocate, pfallocate_fn);
    FD_OP("fallocate", fd, real_posix_fallocate(fd, off, len))
}

/* in-kernel copies: recorded as a write on the destination descriptor */
typedef ssize_t (*cfr_fn)(int, off_t *, int, off_t *, size_t, unsigned int);
ssize_t copy_file_range(int fdin, off_t *offin, int fdout, off_t *offout, size_t len, unsigned int flags)
{
    REAL(copy_file_range, cfr_fn);
    if (fdout < 0 || fdout >= FD_MAX) return real_copy_file_range(fdin, offin, fdout, offout, len, flags);
    LOCK();
    if (!g_fdstate[fdout])
    {
        UNLOCK();
        return real_copy_file_range(fdin, offin, fdout, offout, len, flags);
    }
    struct opctx c = { 0, NULL, "write", g_fdstate[fdout] == 1 ? "w" : "x", g_fdpath[fdout], "", fdout, (long)len };
    int what = op_begin(&c);
    ssize_t r;
    int err = 0;
    if (what > 0) { r = -1; err = what; }
    else { r = real_copy_file_range(fdin, offin, fdout, offout, len, flags); err = r < 0 ? errno : 0; }
    op_end(&c, r, err, what > 0 ? "INJECTED" : "copy_file_range");
    UNLOCK();
    if (r < 0) errno = err;
    return r;
}

typedef ssize_t (*sendfile_fn)(int, int, off_t *, size_t);
ssize_t sendfile(int fdout, int fdin, off_t *off, size_t len)
{
    REAL(sendfile, sendfile_fn);
    if (fdout < 0 || fdout >= FD_MAX) return real_sendfile(fdout, fdin, off, len);
    LOCK();
    if (!g_fdstate[fdout])
    {
        UNLOCK();
        return real_sendfile(fdout, fdin, off, len);
    }
    struct opctx c = { 0, NULL, "write", g_fdstate[fdout] == 1 ? "w" : "x", g_fdpath[fdout], "", fdout, (long)len };
    int what = op_begin(&c);
    ssize_t r;
    int err = 0;
    if (what > 0) { r = -1; err = what; }
    else { r = real_sendfile(fdout, fdin, off, len); err = r < 0 ? errno : 0; }
    op_end(&c, r, err, what > 0 ? "INJECTED" : "sendfile");
    UNLOCK();
    if (r < 0) errno = err;
    return r;
}
ssize_t sendfile64(int fdout, int fdin, off_t *off, size_t len) { return sendfile(fdout, fdin, off, len); }

/* ------------------------------------------------------------------------------------- directories */

#define DIR_MAX 64
static DIR *g_dirs[DIR_MAX];
static char g_dirpath[DIR_MAX][PATH_LEN];

static int dir_slot(DIR *d)
{
    for (int i = 0; i < DIR_MAX; i++)
        if (g_dirs[i] == d) return i;
    return -1;
}

typedef DIR *(*opendir_fn)(const char *);
DIR *opendir(const char *path)
{
    REAL(opendir, opendir_fn);
    LOCK();
    char abs[PATH_LEN];
    abspath_at(AT_FDCWD, path, abs);
    if (!in_scope(abs))
    {
        UNLOCK();
        return real_opendir(path);
    }
    struct opctx c = { 0, NULL, "opendir", "r", abs, "", 0, 0 };
    int what = op_begin(&c);
    DIR *d = NULL;
    int err = 0;
    if (what > 0) err = what;
    else
    {
        d = real_opendir(path);
        err = d ? 0 : errno;
        if (d)
        {
            int s = dir_slot(NULL);
            if (s >= 0) { g_dirs[s] = d; strncpy(g_dirpath[s], abs, PATH_LEN - 1); }
        }
    }
    op_end(&c, d ? 0 : -1, err, what > 0 ? "INJECTED" : "");
    UNLOCK();
    if (!d) errno = err;
    return d;
}

typedef DIR *(*fdopendir_fn)(int);
DIR *fdopendir(int fd)
{
    REAL(fdopendir, fdopendir_fn);
    LOCK();
    DIR *d = real_fdopendir(fd);
    if (d && fd >= 0 && fd < FD_MAX && g_fdstate[fd] == 1)
    {
        int s = dir_slot(NULL);
        if (s >= 0) { g_dirs[s] = d; strncpy(g_dirpath[s], g_fdpath[fd], PATH_LEN - 1); }
    }
    UNLOCK();
    return d;
}

typedef struct dirent64 *(*readdir64_fn)(DIR *);
struct dirent64 *readdir64(DIR *d)
{
    REAL(readdir64, readdir64_fn);
    LOCK();
    int s = dir_slot(d);
    if (s < 0)
    {
        UNLOCK();
        return real_readdir64(d);
    }
    struct opctx c = { 0, NULL, "readdir", "r", g_dirpath[s], "", 0, 0 };
    int what = op_begin(&c);
    struct dirent64 *e = NULL;
    int err = 0;
    char name[300];
    name[0] = 0;
    if (what > 0) err = what;
    else
    {
        errno = 0;
        e = real_readdir64(d);
        err = e ? 0 : errno;
        if (e) { strncpy(name, e->d_name, sizeof name - 1); name[sizeof name - 1] = 0; }
    }
    c.p2 = name;
    op_end(&c, e ? 1 : 0, err, what > 0 ? "INJECTED" : "");
    UNLOCK();
    errno = err;
    return e;
}

typedef struct dirent *(*readdir_fn)(DIR *);
struct dirent *readdir(DIR *d)
{
    /* on x86-64 glibc, dirent and dirent64 have the same layout */
    return (struct dirent *)readdir64(d);
}

typedef int (*closedir_fn)(DIR *);
int closedir(DIR *d)
{
    REAL(closedir, closedir_fn);
    LOCK();
    int s = dir_slot(d);
    if (s < 0)
    {
        UNLOCK();
        return real_closedir(d);
    }
    struct opctx c = { 0, NULL, "closedir", "r", g_dirpath[s], "", 0, 0 };
    (void)op_begin(&c);
    int r = real_closedir(d);
    int err = r < 0 ? errno : 0;
    g_dirs[s] = NULL;
    op_end(&c, r, err, "");
    UNLOCK();
    if (r < 0) errno = err;
    return r;
}
