//! vh — in-process harness around Breadlog's real reference finder (engine E3, DESIGN.md §2.3).
//!
//! Modes
//!   vh eval <cfg.yaml>...                 cases on stdin  ("<cfg index>\t<escaped code>"), one result line per case
//!   vh seq <alphabet file> <maxlen> <threads> <cfg.yaml>...
//!                                         every token sequence of length 1..=maxlen: no panic + entry-list preconditions
//!   vh c12prefix <maxlen> <threads> <cfg.yaml>   every message over the 16-symbol alphabet (4 framings) vs. the reference rule
//!   vh c12near <threads> <cfg.yaml>       boundary digit strings and all their single-character edits
//!   vh c12token <lo> <hi> <threads> <cfg.yaml> <cfg_structured.yaml>   inserted token for every N in lo..=hi
//!
//! Nothing here samples: every mode enumerates its space completely and prints how many cases it evaluated.

use breadlog::verif::{self, Config, LogRefEntry, LogRefKind};
use std::cell::RefCell;
use std::io::{self, BufRead, Write};
use std::panic::{self, AssertUnwindSafe};
use std::sync::atomic::{AtomicU64, Ordering};
use std::sync::{Arc, Mutex};
use std::time::Instant;

const PROBE: u32 = 4242;

thread_local! {
    static LAST_PANIC: RefCell<String> = RefCell::new(String::new());
}

fn install_hook()
{
    panic::set_hook(Box::new(|info| {
        let loc = info
            .location()
            .map(|l| format!("{}:{}", l.file(), l.line()))
            .unwrap_or_default();
        let msg = if let Some(s) = info.payload().downcast_ref::<&str>()
        {
            s.to_string()
        }
        else if let Some(s) = info.payload().downcast_ref::<String>()
        {
            s.clone()
        }
        else
        {
            String::new()
        };
        LAST_PANIC.with(|p| *p.borrow_mut() = format!("{} {}", loc, msg));
    }));
}

/// Process-level partitioning (VH_PART="i/n"): Breadlog's lazily built regexes share one cache pool per process,
/// which serialises threads, so the callers fan out over processes instead of threads.
fn part() -> (usize, usize)
{
    match std::env::var("VH_PART")
    {
        Ok(v) =>
        {
            let (a, b) = v.split_once('/').expect("VH_PART=i/n");
            (a.parse().unwrap(), b.parse().unwrap())
        },
        Err(_) => (0, 1),
    }
}

fn load_cfg(path: &str) -> Config
{
    let y = std::fs::read_to_string(path).expect("read cfg");
    verif::config(&y).expect("parse cfg")
}

fn esc(s: &str) -> String
{
    let mut o = String::with_capacity(s.len() + 8);
    for c in s.chars()
    {
        match c
        {
            '\n' => o.push_str("\\n"),
            '\t' => o.push_str("\\t"),
            '\r' => o.push_str("\\r"),
            '\\' => o.push_str("\\\\"),
            c => o.push(c),
        }
    }
    o
}

fn unesc(s: &str) -> String
{
    let mut o = String::with_capacity(s.len());
    let mut it = s.chars();
    while let Some(c) = it.next()
    {
        if c == '\\'
        {
            match it.next()
            {
                Some('n') => o.push('\n'),
                Some('t') => o.push('\t'),
                Some('r') => o.push('\r'),
                Some('\\') => o.push('\\'),
                Some(x) =>
                {
                    o.push('\\');
                    o.push(x)
                },
                None => o.push('\\'),
            }
        }
        else
        {
            o.push(c);
        }
    }
    o
}

fn kind_char(k: LogRefKind) -> char
{
    match k
    {
        LogRefKind::Unknown => 'U',
        LogRefKind::String => 'S',
        LogRefKind::StructuredPreExisting => 'P',
        LogRefKind::StructuredNew => 'N',
    }
}

fn find_guarded(code: &str, cfg: &Config) -> Result<Vec<LogRefEntry>, String>
{
    match panic::catch_unwind(AssertUnwindSafe(|| verif::find(code, cfg)))
    {
        Ok(v) => Ok(v),
        Err(_) => Err(LAST_PANIC.with(|p| p.borrow().clone())),
    }
}

fn fmt_entries(es: &[LogRefEntry]) -> String
{
    let mut out = String::new();
    for (i, e) in es.iter().enumerate()
    {
        if i > 0
        {
            out.push('|');
        }
        let r = match e.reference()
        {
            Some(v) => v.to_string(),
            None => "-".to_string(),
        };
        out.push_str(&format!(
            "{},{},{},{},{},{},{}",
            e.position().character(),
            e.position().line(),
            e.position().column(),
            r,
            kind_char(e.kind()),
            if e.usable_reference_position() { 1 } else { 0 },
            esc(&e.insertable_reference_string(PROBE)).replace('|', "\\p")
        ));
    }
    out
}

/// Preconditions under which generate.rs' copy-through loop is total (C03): offsets of the entries that
/// will receive an insertion are non-decreasing, lie on character boundaries and within the text.
fn entry_preconditions(code: &str, es: &[LogRefEntry]) -> Option<String>
{
    let mut last = 0usize;
    for e in es.iter().filter(|e| !e.exists() && e.usable_reference_position())
    {
        let p = e.position().character();
        if p > code.len()
        {
            return Some(format!("offset {} beyond length {}", p, code.len()));
        }
        if !code.is_char_boundary(p)
        {
            return Some(format!("offset {} not on a character boundary", p));
        }
        if p < last
        {
            return Some(format!("offset {} before previous {}", p, last));
        }
        last = p;
    }
    None
}

// ---------------------------------------------------------------------------------------------- eval

fn mode_eval(args: &[String])
{
    let cfgs: Vec<Config> = args.iter().map(|p| load_cfg(p)).collect();
    let stdin = io::stdin();
    let stdout = io::stdout();
    let mut out = io::BufWriter::with_capacity(1 << 20, stdout.lock());
    for line in stdin.lock().lines()
    {
        let line = match line
        {
            Ok(l) => l,
            Err(_) => break,
        };
        let (ci, code) = match line.split_once('\t')
        {
            Some((a, b)) => (a.parse::<usize>().unwrap_or(0), unesc(b)),
            None => continue,
        };
        match find_guarded(&code, &cfgs[ci])
        {
            Ok(es) =>
            {
                let pre = entry_preconditions(&code, &es);
                match pre
                {
                    None => writeln!(out, "={}", fmt_entries(&es)).unwrap(),
                    Some(p) => writeln!(out, "?{}\t{}", p, fmt_entries(&es)).unwrap(),
                }
            },
            Err(p) => writeln!(out, "!{}", esc(&p)).unwrap(),
        }
    }
    out.flush().unwrap();
}

// ----------------------------------------------------------------------------------------------- seq

struct SeqStats
{
    cases: u64,
    with_entries: u64,
    insertable: u64,
    panics: Vec<(String, String)>,
    npanics: u64,
    pre_fail: Vec<(String, String)>,
    npre: u64,
    max_us: u128,
    slow: Vec<(String, u128)>,
}

fn seq_rec(
    alpha: &[String],
    cfgs: &[Config],
    buf: &mut String,
    depth: usize,
    maxlen: usize,
    st: &mut SeqStats,
)
{
    if depth > 0
    {
        for cfg in cfgs
        {
            st.cases += 1;
            let t0 = Instant::now();
            match find_guarded(buf, cfg)
            {
                Ok(es) =>
                {
                    if !es.is_empty()
                    {
                        st.with_entries += 1;
                    }
                    st.insertable += es
                        .iter()
                        .filter(|e| !e.exists() && e.usable_reference_position())
                        .count() as u64;
                    if let Some(p) = entry_preconditions(buf, &es)
                    {
                        st.npre += 1;
                        if st.pre_fail.len() < 20
                        {
                            st.pre_fail.push((buf.clone(), p));
                        }
                    }
                },
                Err(p) =>
                {
                    st.npanics += 1;
                    if st.panics.len() < 50
                    {
                        st.panics.push((buf.clone(), p));
                    }
                },
            }
            let us = t0.elapsed().as_micros();
            if us > st.max_us
            {
                st.max_us = us;
            }
            if us > 2_000_000 && st.slow.len() < 10
            {
                st.slow.push((buf.clone(), us));
            }
        }
    }
    if depth == maxlen
    {
        return;
    }
    for t in alpha
    {
        let l = buf.len();
        buf.push_str(t);
        seq_rec(alpha, cfgs, buf, depth + 1, maxlen, st);
        buf.truncate(l);
    }
}

fn json_str(s: &str) -> String
{
    let mut o = String::from("\"");
    for c in s.chars()
    {
        match c
        {
            '"' => o.push_str("\\\""),
            '\\' => o.push_str("\\\\"),
            '\n' => o.push_str("\\n"),
            '\r' => o.push_str("\\r"),
            '\t' => o.push_str("\\t"),
            c if (c as u32) < 0x20 => o.push_str(&format!("\\u{:04x}", c as u32)),
            c => o.push(c),
        }
    }
    o.push('"');
    o
}

fn mode_seq(args: &[String])
{
    let alpha: Vec<String> = std::fs::read_to_string(&args[0])
        .expect("alphabet")
        .lines()
        .filter(|l| !l.is_empty())
        .map(unesc)
        .collect();
    let maxlen: usize = args[1].parse().unwrap();
    let threads: usize = args[2].parse().unwrap();
    let cfgs: Vec<Config> = args[3..].iter().map(|p| load_cfg(p)).collect();
    let alpha = Arc::new(alpha);
    let cfgs = Arc::new(cfgs);
    // work items: first token (and second token when maxlen >= 3, to balance the load)
    let mut items: Vec<Vec<usize>> = Vec::new();
    for i in 0..alpha.len()
    {
        if maxlen >= 3
        {
            for j in 0..alpha.len()
            {
                items.push(vec![i, j]);
            }
        }
        else
        {
            items.push(vec![i]);
        }
    }
    let (pi, pn) = part();
    let items: Vec<Vec<usize>> = items.into_iter().enumerate().filter(|(i, _)| i % pn == pi).map(|(_, x)| x).collect();
    let items = Arc::new(Mutex::new(items));
    let total = Arc::new(Mutex::new(SeqStats {
        cases: 0,
        with_entries: 0,
        insertable: 0,
        panics: vec![],
        npanics: 0,
        pre_fail: vec![],
        npre: 0,
        max_us: 0,
        slow: vec![],
    }));
    let mut hs = vec![];
    for _ in 0..threads
    {
        let alpha = alpha.clone();
        let cfgs = cfgs.clone();
        let items = items.clone();
        let total = total.clone();
        hs.push(std::thread::Builder::new().stack_size(64 << 20).spawn(move || {
            let mut st = SeqStats {
                cases: 0,
                with_entries: 0,
                insertable: 0,
                panics: vec![],
                npanics: 0,
                pre_fail: vec![],
                npre: 0,
                max_us: 0,
                slow: vec![],
            };
            loop
            {
                let it = { items.lock().unwrap().pop() };
                let it = match it
                {
                    Some(i) => i,
                    None => break,
                };
                let mut buf = String::new();
                // the prefixes themselves (length 1 and 2) are evaluated by the item whose tail is index 0
                if it.len() == 2
                {
                    if it[1] == 0
                    {
                        buf.push_str(&alpha[it[0]]);
                        seq_rec(&alpha, &cfgs, &mut buf, 1, 1, &mut st);
                        buf.clear();
                    }
                    buf.push_str(&alpha[it[0]]);
                    buf.push_str(&alpha[it[1]]);
                    seq_rec(&alpha, &cfgs, &mut buf, 2, maxlen, &mut st);
                }
                else
                {
                    buf.push_str(&alpha[it[0]]);
                    seq_rec(&alpha, &cfgs, &mut buf, 1, maxlen, &mut st);
                }
            }
            let mut t = total.lock().unwrap();
            t.cases += st.cases;
            t.with_entries += st.with_entries;
            t.insertable += st.insertable;
            t.npanics += st.npanics;
            t.npre += st.npre;
            t.max_us = t.max_us.max(st.max_us);
            for p in st.panics
            {
                if t.panics.len() < 200
                {
                    t.panics.push(p);
                }
            }
            for p in st.pre_fail
            {
                if t.pre_fail.len() < 50
                {
                    t.pre_fail.push(p);
                }
            }
            for p in st.slow
            {
                if t.slow.len() < 20
                {
                    t.slow.push(p);
                }
            }
        }).unwrap());
    }
    for h in hs
    {
        h.join().unwrap();
    }
    let t = total.lock().unwrap();
    let mut o = String::new();
    o.push_str(&format!(
        "{{\"cases\":{},\"with_entries\":{},\"insertable\":{},\"npanics\":{},\"npre\":{},\"max_us\":{},\"panics\":[",
        t.cases, t.with_entries, t.insertable, t.npanics, t.npre, t.max_us
    ));
    for (i, (s, p)) in t.panics.iter().enumerate()
    {
        if i > 0
        {
            o.push(',');
        }
        o.push_str(&format!("[{},{}]", json_str(s), json_str(p)));
    }
    o.push_str("],\"pre_fail\":[");
    for (i, (s, p)) in t.pre_fail.iter().enumerate()
    {
        if i > 0
        {
            o.push(',');
        }
        o.push_str(&format!("[{},{}]", json_str(s), json_str(p)));
    }
    o.push_str("],\"slow\":[");
    for (i, (s, us)) in t.slow.iter().enumerate()
    {
        if i > 0
        {
            o.push(',');
        }
        o.push_str(&format!("[{},{}]", json_str(s), us));
    }
    o.push_str("]}");
    println!("{}", o);
}

// ----------------------------------------------------------------------------------------------- C12

/// The property's rule, written from its text: the message starts with `[ref: `, then 1-10 ASCII digits whose
/// value is at most 4294967295, then `]`.
fn reference_rule(m: &str) -> Option<u32>
{
    let b = m.as_bytes();
    let pre = b"[ref: ";
    if b.len() < pre.len() || &b[..pre.len()] != pre
    {
        return None;
    }
    let mut i = pre.len();
    let mut v: u64 = 0;
    let mut nd = 0;
    while i < b.len() && b[i].is_ascii_digit()
    {
        v = v * 10 + (b[i] - b'0') as u64;
        nd += 1;
        i += 1;
        if nd > 10
        {
            return None;
        }
    }
    if nd == 0 || i >= b.len() || b[i] != b']' || v > 4294967295
    {
        return None;
    }
    Some(v as u32)
}

struct C12Fail
{
    msg: String,
    expected: String,
    got: String,
}

/// Runs the whole parser on `info!("<m>")` and compares with the rule.
fn c12_case(m: &str, cfg: &Config, fails: &mut Vec<C12Fail>, nfail: &mut u64, present: &mut u64)
{
    let code = format!("fn f() {{ info!(\"{}\"); }}\n", m);
    let want = reference_rule(m);
    if want.is_some()
    {
        *present += 1;
    }
    let got = find_guarded(&code, cfg);
    let ok = match &got
    {
        Ok(es) => es.len() == 1 && es[0].reference() == want && es[0].position().character() == 16,
        Err(_) => false,
    };
    if !ok
    {
        *nfail += 1;
        if fails.len() < 40
        {
            fails.push(C12Fail {
                msg: m.to_string(),
                expected: format!("{:?}", want),
                got: match &got
                {
                    Ok(es) => fmt_entries(es),
                    Err(p) => format!("PANIC {}", p),
                },
            });
        }
    }
}

// (tab and no-break space: white space that is not the one blank of the token; "R": letter case)
const SIGMA12: [&str; 16] = ["[", "]", "r", "e", "f", ":", " ", "0", "1", "9", "٣", "x", "+", "\t", "\u{a0}", "R"];

fn c12_emit(cases: u64, present: u64, nfail: u64, fails: &[C12Fail])
{
    let mut o = format!("{{\"cases\":{},\"present\":{},\"nfail\":{},\"fails\":[", cases, present, nfail);
    for (i, f) in fails.iter().enumerate()
    {
        if i > 0
        {
            o.push(',');
        }
        o.push_str(&format!(
            "{{\"msg\":{},\"expected\":{},\"got\":{}}}",
            json_str(&f.msg),
            json_str(&f.expected),
            json_str(&f.got)
        ));
    }
    o.push_str("]}");
    println!("{}", o);
}

fn mode_c12prefix(args: &[String])
{
    let maxlen: usize = args[0].parse().unwrap();
    let threads: usize = args[1].parse().unwrap();
    let cfg = Arc::new(load_cfg(&args[2]));
    // framings: whole message; suffix of "[ref: "; of "[ref:"; of "[ref"; prefix of "[ref: 1] x"
    let framings: Vec<(&str, &str)> = vec![("", ""), ("[ref: ", ""), ("[ref:", ""), ("[ref", ""), ("", "[ref: 1] x"), ("[ref: ", "[ref: 1] x"), ("[ref: ", "] [ref: 7] y")];
    let cases = Arc::new(AtomicU64::new(0));
    let present = Arc::new(AtomicU64::new(0));
    let nfail = Arc::new(AtomicU64::new(0));
    let fails: Arc<Mutex<Vec<C12Fail>>> = Arc::new(Mutex::new(vec![]));
    let mut items: Vec<usize> = (0..SIGMA12.len() * SIGMA12.len()).collect();
    items.reverse();
    let (pi, pn) = part();
    let items: Vec<usize> = items.into_iter().enumerate().filter(|(i, _)| i % pn == pi).map(|(_, x)| x).collect();
    let items = Arc::new(Mutex::new(items));
    let mut hs = vec![];
    for _ in 0..threads
    {
        let (cfg, cases, present, nfail, fails, items, framings) =
            (cfg.clone(), cases.clone(), present.clone(), nfail.clone(), fails.clone(), items.clone(), framings.clone());
        hs.push(std::thread::spawn(move || {
            let mut lc = 0u64;
            let mut lp = 0u64;
            let mut lf = 0u64;
            let mut lfails = vec![];
            fn rec(
                s: &mut String,
                depth: usize,
                maxlen: usize,
                framings: &[(&str, &str)],
                cfg: &Config,
                lc: &mut u64,
                lp: &mut u64,
                lf: &mut u64,
                lfails: &mut Vec<C12Fail>,
            )
            {
                for (a, b) in framings
                {
                    let m = format!("{}{}{}", a, s, b);
                    *lc += 1;
                    c12_case(&m, cfg, lfails, lf, lp);
                }
                if depth == maxlen
                {
                    return;
                }
                for t in SIGMA12.iter()
                {
                    let l = s.len();
                    s.push_str(t);
                    rec(s, depth + 1, maxlen, framings, cfg, lc, lp, lf, lfails);
                    s.truncate(l);
                }
            }
            loop
            {
                let it = { items.lock().unwrap().pop() };
                let it = match it
                {
                    Some(i) => i,
                    None => break,
                };
                let (i, j) = (it / SIGMA12.len(), it % SIGMA12.len());
                let mut s = String::new();
                if i == 0 && j == 0
                {
                    // the empty string and the length-1 strings
                    rec(&mut s, 0, 1, &framings, &cfg, &mut lc, &mut lp, &mut lf, &mut lfails);
                }
                if maxlen >= 2
                {
                    s.push_str(SIGMA12[i]);
                    s.push_str(SIGMA12[j]);
                    rec(&mut s, 2, maxlen, &framings, &cfg, &mut lc, &mut lp, &mut lf, &mut lfails);
                }
            }
            cases.fetch_add(lc, Ordering::Relaxed);
            present.fetch_add(lp, Ordering::Relaxed);
            nfail.fetch_add(lf, Ordering::Relaxed);
            let mut f = fails.lock().unwrap();
            for x in lfails
            {
                if f.len() < 60
                {
                    f.push(x);
                }
            }
        }));
    }
    for h in hs
    {
        h.join().unwrap();
    }
    let f = fails.lock().unwrap();
    c12_emit(cases.load(Ordering::Relaxed), present.load(Ordering::Relaxed), nfail.load(Ordering::Relaxed), &f);
}

fn mode_c12near(args: &[String])
{
    let _threads: usize = args[0].parse().unwrap();
    let cfg = load_cfg(&args[1]);
    let mut cases = 0u64;
    let mut present = 0u64;
    let mut nfail = 0u64;
    let mut fails = vec![];
    let centres: [u64; 4] = [0, 1_000_000_000, 4_294_967_296, 10_000_000_000];
    let radius: u64 = args.get(2).and_then(|s| s.parse().ok()).unwrap_or(2000);
    let edit_radius: u64 = args.get(3).and_then(|s| s.parse().ok()).unwrap_or(40);
    for c in centres
    {
        let lo = c.saturating_sub(radius);
        let hi = c + radius;
        for v in lo..=hi
        {
            for z in 0..=3
            {
                let d = format!("{}{}", "0".repeat(z), v);
                if d.len() > 12
                {
                    continue;
                }
                let tok = format!("[ref: {}]", d);
                for tail in ["", " x"]
                {
                    let m = format!("{}{}", tok, tail);
                    cases += 1;
                    c12_case(&m, &cfg, &mut fails, &mut nfail, &mut present);
                }
                // every single-character edit of the token, close to the centre only (the space is |tok| x 12 x 3 per token)
                if v + edit_radius >= c && v <= c + edit_radius && z <= 1
                {
                    let chars: Vec<char> = tok.chars().collect();
                    for i in 0..=chars.len()
                    {
                        for s in SIGMA12.iter()
                        {
                            // insert
                            let mut e: String = chars[..i].iter().collect();
                            e.push_str(s);
                            e.extend(chars[i..].iter());
                            e.push_str(" x");
                            cases += 1;
                            c12_case(&e, &cfg, &mut fails, &mut nfail, &mut present);
                            if i < chars.len()
                            {
                                // substitute
                                let mut e: String = chars[..i].iter().collect();
                                e.push_str(s);
                                e.extend(chars[i + 1..].iter());
                                e.push_str(" x");
                                cases += 1;
                                c12_case(&e, &cfg, &mut fails, &mut nfail, &mut present);
                            }
                        }
                        if i < chars.len()
                        {
                            // delete
                            let mut e: String = chars[..i].iter().collect();
                            e.extend(chars[i + 1..].iter());
                            e.push_str(" x");
                            cases += 1;
                            c12_case(&e, &cfg, &mut fails, &mut nfail, &mut present);
                        }
                    }
                }
            }
        }
    }
    c12_emit(cases, present, nfail, &fails);
}

/// The documented extraction regex `\[ref: ([0-9]{1,10})\]`, un-anchored, first match — hand-written matcher so
/// that the harness does not borrow Breadlog's own pattern.
fn documented_regex_first(s: &str) -> Option<String>
{
    let b = s.as_bytes();
    let pre = b"[ref: ";
    let mut i = 0;
    while i + pre.len() <= b.len()
    {
        if &b[i..i + pre.len()] == pre
        {
            let mut j = i + pre.len();
            let st = j;
            while j < b.len() && b[j].is_ascii_digit() && j - st < 10
            {
                j += 1;
            }
            if j > st && j < b.len() && b[j] == b']'
            {
                return Some(s[st..j].to_string());
            }
        }
        i += 1;
    }
    None
}

fn mode_c12token(args: &[String])
{
    let lo: u64 = args[0].parse().unwrap();
    let hi: u64 = args[1].parse().unwrap();
    let threads: u64 = args[2].parse().unwrap();
    let cfg_u = load_cfg(&args[3]);
    let cfg_s = load_cfg(&args[4]);
    // full = also run Breadlog's own regex read-back on every N (otherwise on every 64th N and near the ends)
    let full = args.get(5).map(|s| s == "full").unwrap_or(true);
    // One missing entry of each kind, obtained from the real parser.
    let eu = verif::find("fn f() { info!(\"msg {}\", 1); }\n", &cfg_u);
    let es0 = verif::find("fn f() { info!(\"msg {}\", 1); }\n", &cfg_s);
    let es1 = verif::find("fn f() { info!(a = 1; \"msg {}\", 1); }\n", &cfg_s);
    assert!(eu.len() == 1 && es0.len() == 1 && es1.len() == 1);
    let eu = Arc::new(eu[0].clone());
    let es0 = Arc::new(es0[0].clone());
    let es1 = Arc::new(es1[0].clone());
    let nfail = Arc::new(AtomicU64::new(0));
    let fails: Arc<Mutex<Vec<String>>> = Arc::new(Mutex::new(vec![]));
    let span = hi - lo + 1;
    let chunk = (span + threads - 1) / threads;
    let mut hs = vec![];
    for t in 0..threads
    {
        let (eu, es0, es1, nfail, fails) = (eu.clone(), es0.clone(), es1.clone(), nfail.clone(), fails.clone());
        let a = lo + t * chunk;
        let b = (a + chunk - 1).min(hi);
        hs.push(std::thread::spawn(move || {
            if a > b
            {
                return;
            }
            let mut local = vec![];
            let mut n = a;
            loop
            {
                let id = n as u32;
                let tok = eu.insertable_reference_string(id);
                let want = format!("[ref: {}] ", n);
                let mut bad = None;
                if tok != want
                {
                    bad = Some(format!("unstructured token for {} is {:?}", n, tok));
                }
                else
                {
                    let msg = format!("{}msg {{}}", tok);
                    if reference_rule(&msg) != Some(id)
                    {
                        bad = Some(format!("token {:?} does not satisfy the presence rule", tok));
                    }
                    else if (full || n % 64 == 0 || n < 2_000_000 || n > 4_294_967_295 - 2_000_000) && verif::extract_reference(&msg) != Some(id)
                    {
                        bad = Some(format!("Breadlog does not read its own token {:?} back", tok));
                    }
                    else if documented_regex_first(&msg).as_deref() != Some(&n.to_string())
                    {
                        bad = Some(format!("documented regex does not extract {} from {:?}", n, msg));
                    }
                }
                let t0 = es0.insertable_reference_string(id);
                let t1 = es1.insertable_reference_string(id);
                // (a key-value ID may carry its type: `ref = 3000000000u32` - a bare literal above i32::MAX does not compile there)
                if bad.is_none() && t0 != format!("ref = {}; ", n) && t0 != format!("ref = {}u32; ", n)
                {
                    bad = Some(format!("structured token (no other kv) for {} is {:?}", n, t0));
                }
                if bad.is_none() && t1 != format!("ref = {}, ", n) && t1 != format!("ref = {}u32, ", n)
                {
                    bad = Some(format!("structured token (other kvs) for {} is {:?}", n, t1));
                }
                if let Some(b) = bad
                {
                    nfail.fetch_add(1, Ordering::Relaxed);
                    if local.len() < 10
                    {
                        local.push(b);
                    }
                }
                if n == b
                {
                    break;
                }
                n += 1;
            }
            let mut f = fails.lock().unwrap();
            for x in local
            {
                if f.len() < 40
                {
                    f.push(x);
                }
            }
        }));
    }
    for h in hs
    {
        h.join().unwrap();
    }
    let f = fails.lock().unwrap();
    let mut o = format!("{{\"cases\":{},\"nfail\":{},\"fails\":[", span, nfail.load(Ordering::Relaxed));
    for (i, x) in f.iter().enumerate()
    {
        if i > 0
        {
            o.push(',');
        }
        o.push_str(&json_str(x));
    }
    o.push_str("]}");
    println!("{}", o);
}

fn main()
{
    install_hook();
    let args: Vec<String> = std::env::args().collect();
    if args.len() < 2
    {
        eprintln!("usage: vh <mode> ...");
        std::process::exit(2);
    }
    match args[1].as_str()
    {
        "eval" => mode_eval(&args[2..]),
        "seq" => mode_seq(&args[2..]),
        "c12prefix" => mode_c12prefix(&args[2..]),
        "c12near" => mode_c12near(&args[2..]),
        "c12token" => mode_c12token(&args[2..]),
        _ =>
        {
            eprintln!("unknown mode");
            std::process::exit(2);
        },
    }
}
