"""E4 batch driver: many single-file cases in one project tree, run through check -> edit -> check -> edit.

Used by C03 (token-only diff), C05 (check report == edit diff) and C06 (fixpoint / round trip)."""
import multiprocessing
import os
import shutil

import cli
import gen
import vh
from vcommon import NCPU, scratch_dir


class FileResult:
    __slots__ = ("orig", "after1", "after2", "check_positions", "unusable_positions", "label", "cfg")


class TreeResult:
    __slots__ = ("files", "check1", "edit1", "check2", "edit2", "rep_check1", "rep_edit1", "rep_check2", "rep_edit2", "lock1", "lock2",
                 "crashed", "cfg")


def _run(args):
    cfg_idx, cases, work, steps, use_cache = args
    ms, st = cfg_idx // 2, cfg_idx % 2 == 1
    proj = os.path.join(work, "proj")
    os.makedirs(os.path.join(proj, "src"))
    tmp = os.path.join(work, "tmp")
    os.makedirs(tmp)
    with open(os.path.join(proj, "Breadlog.yaml"), "w") as f:
        f.write(cli.config_yaml("./src", structured=st, macros=gen.MACRO_SETS[ms], use_cache=use_cache))
    names = []
    for i, (code, label) in enumerate(cases):
        # spread over sub-directories so that per-directory effects and path handling are exercised too
        n = "d%d/f%06d.rs" % (i % 3, i) if i % 2 else "f%06d.rs" % i
        names.append(n)
        p = os.path.join(proj, "src", n)
        os.makedirs(os.path.dirname(p), exist_ok=True)
        with open(p, "wb") as f:
            f.write(code if isinstance(code, bytes) else code.encode("utf-8"))
    tr = TreeResult()
    tr.cfg = cfg_idx
    tr.crashed = None
    cfgp = os.path.join(proj, "Breadlog.yaml")
    # generous: wall time is C17's business, here a slow machine must not turn into a verdict
    to = max(180, len(cases) * 0.5) + sum(len(c[0]) for c in cases) / 2000.0

    def go(check):
        r = cli.run_breadlog(cfgp, check=check, cwd=work, tmpdir=tmp, timeout=to)
        if r.timed_out:
            tr.crashed = ("timeout", "check" if check else "edit", "no result within %.0f s" % to)
        elif r.panicked or r.signal is not None:
            tr.crashed = ("check" if check else "edit", repr(r), r.stderr[-300:].decode("utf-8", "replace"))
        return r

    def read_all():
        out = []
        for n in names:
            with open(os.path.join(proj, "src", n), "rb") as f:
                out.append(f.read())
        return out
    orig = read_all()
    tr.check1 = go(True)
    tr.rep_check1 = cli.Report(tr.check1.stdout, names=list(names), src=os.path.join(proj, "src"), err=tr.check1.stderr)
    tr.edit1 = go(False) if not tr.crashed else None
    after1 = read_all()
    tr.lock1 = cli.read_lock(os.path.join(proj, "Breadlog.lock"))
    tr.rep_edit1 = cli.Report(tr.edit1.stdout) if tr.edit1 else None
    tr.check2 = tr.edit2 = tr.rep_check2 = tr.rep_edit2 = None
    after2 = after1
    tr.lock2 = tr.lock1
    if steps >= 4 and not tr.crashed:
        tr.check2 = go(True)
        tr.rep_check2 = cli.Report(tr.check2.stdout, names=list(names), src=os.path.join(proj, "src"), err=tr.check2.stderr)
        tr.edit2 = go(False) if not tr.crashed else None
        tr.rep_edit2 = cli.Report(tr.edit2.stdout) if tr.edit2 else None
        after2 = read_all()
        tr.lock2 = cli.read_lock(os.path.join(proj, "Breadlog.lock"))
    pos, unus = {}, {}
    for fn, l, c in tr.rep_check1.missing:
        pos.setdefault(os.path.relpath(fn, os.path.join(proj, "src")) if os.path.isabs(fn) else fn, []).append((l, c))
    for fn, l, c in tr.rep_check1.unusable:
        unus.setdefault(os.path.relpath(fn, os.path.join(proj, "src")) if os.path.isabs(fn) else fn, []).append((l, c))

    def key(fn):
        # (the report resolves every name it can to one of `names`; what is left is a name as printed)
        return os.path.normpath(os.path.relpath(os.path.normpath(fn), os.path.join(proj, "src")) if os.path.isabs(fn) else fn)
    pos = {}
    for fn, l, c in tr.rep_check1.missing:
        pos.setdefault(key(fn), []).append((l, c))
    unus = {}
    for fn, l, c in tr.rep_check1.unusable:
        unus.setdefault(key(fn), []).append((l, c))
    tr.files = []
    for i, n in enumerate(names):
        fr = FileResult()
        fr.orig, fr.after1, fr.after2 = orig[i], after1[i], after2[i]
        fr.check_positions = sorted(pos.get(os.path.normpath(n), []))
        fr.unusable_positions = sorted(unus.get(os.path.normpath(n), []))
        fr.label = cases[i][1]
        fr.cfg = cfg_idx
        tr.files.append(fr)
    # drop bulky stdout (kept: parsed reports)
    for r in (tr.check1, tr.edit1, tr.check2, tr.edit2):
        if r is not None:
            r.stdout = r.stdout[-2000:]
            r.trace = None
    shutil.rmtree(work, ignore_errors=True)
    return tr


def _pf(chunk):
    res = vh.eval_cases([(c[0], c[1]) for c in chunk])
    return [r[0] != "panic" for r in res]


def prefilter(cases):
    """Drop cases on which the parser panics in-process (they would take the whole batch down; C17 reports them).
    cases: list of (cfg_idx, code(str), label). Returns (kept, n_dropped)."""
    if not cases:
        return [], 0
    # byte-level cases (not valid UTF-8) cannot be sent to the in-process finder as text; they are kept as they are
    raw = [c for c in cases if isinstance(c[1], bytes)]
    if raw:
        kept, dropped = prefilter([c for c in cases if not isinstance(c[1], bytes)])
        # interleave so that unreadable files sit between readable ones in every tree
        out = []
        step = max(1, len(kept) // (len(raw) + 1))
        ri = 0
        for i, c in enumerate(kept):
            out.append(c)
            if i % step == step - 1 and ri < len(raw):
                out.append(raw[ri])
                ri += 1
        out += raw[ri:]
        return out, dropped
    vh.cfg_paths()
    # balance by size: big files first, round-robin
    order = sorted(range(len(cases)), key=lambda i: -len(cases[i][1]))
    nchunks = min(NCPU, max(1, len(cases) // 50))
    chunks = [[] for _ in range(nchunks)]
    for k, i in enumerate(order):
        chunks[k % nchunks].append(i)
    keep = [True] * len(cases)
    with multiprocessing.Pool(nchunks) as pool:
        for idxs, oks in zip(chunks, pool.map(_pf, [[cases[i] for i in ch] for ch in chunks])):
            for i, ok in zip(idxs, oks):
                keep[i] = ok
    kept = [c for c, k in zip(cases, keep) if k]
    return kept, len(cases) - len(kept)


def run_trees(cases, steps=2, per_tree=1500, use_cache=False, pool=None):
    """cases: list of (cfg_idx, code, label). Yields TreeResult per tree (cases grouped by configuration)."""
    by_cfg = {}
    for ci, code, label in cases:
        # files that already carry the largest ID exhaust the range for their whole tree (the run fails by design, C01):
        # they get trees of their own so that the other cases are still edited and judged
        has_max = ("4294967295" in code) if isinstance(code, str) else (b"4294967295" in code)
        by_cfg.setdefault(ci + (1000 if has_max else 0), []).append((code, label))
    base = scratch_dir("dt")
    jobs = []
    for ci, cs in sorted(by_cfg.items()):
        # pack by bytes as well as by count so that a few huge files do not end up in one sequential tree
        cur, cur_bytes, k = [], 0, 0
        for c in cs:
            cur.append(c)
            cur_bytes += len(c[0])
            if len(cur) >= per_tree or cur_bytes >= 400_000:
                w = os.path.join(base, "t%d_%d" % (ci, k))
                os.makedirs(w)
                jobs.append((ci % 1000, cur, w, steps, use_cache))
                cur, cur_bytes, k = [], 0, k + 1
        if cur:
            w = os.path.join(base, "t%d_%d" % (ci, k))
            os.makedirs(w)
            jobs.append((ci % 1000, cur, w, steps, use_cache))
    jobs.sort(key=lambda j: -sum(len(c[0]) for c in j[1]))
    own = pool is None
    if own:
        pool = multiprocessing.Pool(min(NCPU, max(1, len(jobs))))
    try:
        for tr in pool.imap_unordered(_run, jobs):
            if tr.crashed and tr.crashed[0] == "timeout":
                from vcommon import MachineryError
                raise MachineryError("a batch of %d files did not finish its %s run: %s (run time is judged by C17, not here)" % (
                    len(tr.files) if tr.files else -1, tr.crashed[1], tr.crashed[2]))
            yield tr
    finally:
        if own:
            pool.close()
            pool.join()
        shutil.rmtree(base, ignore_errors=True)
