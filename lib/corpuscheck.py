"""C10 / C11 on real code: the statements Breadlog's finder returns for every file of the corpora (Rocket core, fib-rs, Breadlog's own
sources) and for statement-preserving transformations of them, against the independent lexer-based recogniser of lib/rustlex.py."""
import re

import corpus
import gen
import rustlex
import vh

# statement-preserving transformations of a whole file
TRANSFORMS = {
    "identity": lambda t: t,
    "crlf": lambda t: t.replace("\r\n", "\n").replace("\n", "\r\n"),
    "bom": lambda t: "﻿" + t,
    "tab-indented": lambda t: "".join("\t" + l for l in t.splitlines(True)),
    "eof-line-comment": lambda t: t + ("" if t.endswith("\n") or not t else "\n") + '// info!("in a comment at the very end")',
    "wrapped-in-module": lambda t: "mod wrapped {\n" + t + ("" if t.endswith("\n") else "\n") + "}\n",
    "leading-block-comment": lambda t: '/* warn!("x"); /* nested */ error!("y"); */\n' + t,
}
# (macro set, structured): set 0 = info/warn/error; set 2 = only `info` (warn!/error! in the corpus become unconfigured names)
CONFIGS = [(0, False), (0, True), (2, False)]
_DIRECTIVE = re.compile(r"^\s*(breadlog:ignore|breadlog:no-kvp)\s*$", re.I)


def _line_bounds(text):
    starts = [0]
    for m in re.finditer("\n", text):
        starts.append(m.end())
    return starts


def directive_before(text, toks, starts, pos):
    """The directive (lower case) governing a statement starting at `pos`, None, or "?" when the situation is not clear-cut (more than one
    comment on the governing line)."""
    import bisect
    li = bisect.bisect_right(starts, pos) - 1
    k = li - 1
    while k >= 0:
        a = starts[k]
        b = starts[k + 1] if k + 1 < len(starts) else len(text)
        if text[a:b].strip():
            break
        k -= 1
    if k < 0:
        return None
    a, b = starts[k], (starts[k + 1] if k + 1 < len(starts) else len(text))
    comments = [(kind, s, e) for kind, s, e in toks if kind in ("lc", "bc") and s < b and e > a]
    if not comments:
        return None
    if len(comments) > 1:
        return "?"
    kind, s, e = comments[0]
    if kind == "bc" and not (s >= a and e <= b):
        return "?" if "breadlog" in text[s:e].lower() else None      # a multi-line block comment: the property speaks of single-line ones
    body = text[s + 2:e] if kind == "lc" else text[s + 2:e - 2]
    if kind == "lc" and body.startswith(("/", "!")):
        return "?" if "breadlog" in body.lower() else None            # doc comments are not judged here
    m = _DIRECTIVE.match(body)
    return m.group(1).lower() if m else None


def _judge(args):
    """One chunk of (macro set, structured, transformation, path, text): evaluate with the real finder, judge against the recogniser.
    Returns (violations, n_canon, n_found, n_decoy)."""
    prop, chunk = args
    res = vh.eval_cases([(gen.cfg_index(ms, st), t) for ms, st, _, _, t in chunk])
    viol = []
    n_canon = n_found = n_decoy = 0
    for (ms, structured, tname, p, t), r in zip(chunk, res):
        label = {"file": p, "transformation": tname, "macro_set": ms, "structured": structured}
        if r[0] == "panic":
            viol.append(("corpus:panic:%s" % tname, dict(label, panic=r[1][:300]), t))
            continue
        ents = r[-1]
        bpos = [0]
        for ch in t:
            bpos.append(bpos[-1] + len(ch.encode("utf-8")))
        b2c = {b: i for i, b in enumerate(bpos)}
        toks = rustlex.lex(t)
        starts = _line_bounds(t)
        reg = rustlex.region_map(t)
        macros = gen.MACRO_SETS[ms]
        invs = list(rustlex.invocations(t, macros))
        ent_offs = sorted(e[0] for e in ents)
        for k, inv in enumerate(invs):
            if inv["class"] != "CANON":
                continue
            d = directive_before(t, toks, starts, inv["name_start"])
            if d == "?":
                continue
            nxt = invs[k + 1]["name_start"] if k + 1 < len(invs) else len(t)
            inside = [o for o in ent_offs if bpos[inv["open"]] <= o < bpos[nxt]]
            if inv["configured"] and d != "breadlog:ignore":
                n_canon += 1
                want = bpos[inv["msg_start"] + 1]
                if prop == "C10":
                    excerpt = t[inv["name_start"]:inv["name_start"] + 100]
                    if not inside:
                        viol.append(("corpus:canonical-statement-not-found:%s" % tname, dict(label, statement=excerpt), t))
                    elif not structured or d == "breadlog:no-kvp":
                        if want not in inside:
                            viol.append(("corpus:message-position:%s" % tname, dict(label, statement=excerpt, expected_byte=want, got=inside), t))
                        else:
                            n_found += 1
                    else:
                        n_found += 1
            elif prop == "C11":
                n_decoy += 1
                if inside:
                    why = "ignored-statement" if inv["configured"] else "unconfigured-path-or-name"
                    viol.append(("corpus:%s-reported:%s" % (why, tname), dict(label, statement=t[inv["name_start"]:inv["name_start"] + 100], entries=inside), t))
        if prop == "C11":
            for o in ent_offs:
                ci = b2c.get(o)
                if ci is None:
                    viol.append(("corpus:entry-not-on-a-character-boundary:%s" % tname, dict(label, byte=o), t))
                elif 0 < ci <= len(reg) and reg[ci - 1] == "C" and (ci >= len(reg) or reg[ci] == "C"):
                    viol.append(("corpus:entry-inside-a-comment:%s" % tname, dict(label, around=t[max(0, ci - 80):ci + 30]), t))
            conf = [i for i in invs if i["configured"]]
            if len(ents) > len(conf):
                viol.append(("corpus:more-entries-than-configured-invocations:%s" % tname, dict(label, entries=len(ents), configured_invocations=len(conf)), t))
    return viol[:50], n_canon, n_found, n_decoy, len(chunk)


def check(v, prop, tier):
    """prop: "C10" (every canonical statement found, at the right place) or "C11" (nothing else is found)."""
    import multiprocessing
    files = []
    for p, b in corpus.files():
        try:
            files.append((p, b.decode("utf-8")))
        except UnicodeDecodeError:
            pass
    cases = []
    for ms, structured in CONFIGS:
        for tname, tf in TRANSFORMS.items():
            if tier != "thorough" and tname not in ("identity", "crlf", "eof-line-comment", "leading-block-comment") and (ms, structured) != (0, False):
                continue
            for p, t in files:
                cases.append((ms, structured, tname, p, tf(t)))
    vh.cfg_paths()
    chunks = [(prop, cases[i::64]) for i in range(64)]
    n_canon = n_found = n_decoy = 0
    with multiprocessing.Pool(vh.NCPU) as pool:
        for viol, a, b, c, n in pool.imap_unordered(_judge, chunks):
            v.count(n)
            n_canon += a
            n_found += b
            n_decoy += c
            for sig, detail, t in viol:
                v.violation(sig, detail, replay_files={"case.rs": t})
    v.subspace("real code: %d corpus files x %d statement-preserving transformations x configurations %r against the independent lexer-based recogniser"
               % (len(files), len(TRANSFORMS), CONFIGS), len(cases), exhaustive=True,
               **({"canonical_statements_expected": n_canon, "found_at_the_expected_place": n_found} if prop == "C10" else {"decoy_or_ignored_invocations": n_decoy}))
