"""Statement renderer with ground-truth facts, and the reference model (DESIGN.md §2.3).

A *case* is a file text plus the list of expected entries, derived from nothing but the property texts:
    ("S", offset, ref)           unstructured entry: insertion point = first character of the message literal,
                                 ref = value of a leading valid token or None
    ("N", lo, hi, holes, text)   structured, no `ref` key: insertion offset must lie in [lo, hi] (the gap after the target
                                 argument - or after `(` - and before the first key-value / the message), outside the
                                 comment extents in `holes`; text = expected inserted text for probe id 4242
    ("P", ref)                   structured, `ref = <uint literal>` present: recognised with that value
    ("X",)                       structured, `ref` key with a non-literal value: unusable, never missing
All offsets are byte offsets into the UTF-8 text of the file.
"""
import itertools
import re

PROBE = 4242
U32 = 0xFFFFFFFF

MACRO_SETS = [
    [("log", "info"), ("log", "warn"), ("log", "error")],
    [("my_app::logging", "event")],
    [("log", "info"), ("tracing", "info")],
    [("журнал", "инфо")],
    [("log", "info"), ("tracing", "event"), ("my_app::audit", "record")],
    [("app_core::telemetry::audit", "record"), ("audit", "note")],
    [("log", "_trace"), ("_internal", "emit")],
]


def cfg_index(macroset, structured):
    return macroset * 2 + (1 if structured else 0)


def all_configs():
    import cli
    out = []
    for ms in MACRO_SETS:
        for st in (False, True):
            out.append(cli.config_yaml("/nonexistent", structured=st, macros=ms))
    return out


def ref_rule(msg):
    """The presence rule of C12, from the property text."""
    m = re.match(r"\[ref: ([0-9]{1,10})\]", msg)
    if not m:
        return None
    v = int(m.group(1))
    return v if v <= U32 else None


_UINT = re.compile(r"^([0-9]+)(?:u32)?$")


class KV:
    """A key-value argument: key, optional capture modifier, optional value text."""

    def __init__(self, key, mod="", value=None):
        self.key, self.mod, self.value = key, mod, value

    def text(self):
        s = self.key + self.mod
        if self.value is not None:
            s += " = " + self.value
        return s


def kv(s):
    """'k = 1' / 'k:? = x' / 'k' -> KV"""
    if " = " in s:
        left, val = s.split(" = ", 1)
    else:
        left, val = s, None
    if ":" in left:
        key, mod = left.split(":", 1)
        mod = ":" + mod
    else:
        key, mod = left, ""
    return KV(key, mod, val)


class Stmt:
    """One log statement in canonical form. `fill` maps gap-site name -> filler text (missing = default)."""

    def __init__(self, macro=("log", "info"), qualified=False, target=None, kvs=(), msg="plain", trailing="",
                 fill=None, close=")", bang_gap="", paren_gap=""):
        self.macro, self.qualified, self.target = macro, qualified, target
        self.bang_gap = bang_gap      # layout between the macro name and `!` (rustc accepts blanks and comments there)
        self.paren_gap = paren_gap    # ... and between `!` and `(` (a statement split after the bang)
        self.kvs = [k if isinstance(k, KV) else kv(k) for k in kvs]
        self.msg, self.trailing, self.fill, self.close = msg, trailing, fill or {}, close

    def render(self):
        """Returns (text, facts). facts (offsets relative to the statement start, in *characters of text* converted to
        bytes by the caller): msg_first, gap_lo, gap_hi, holes[(a,b)], nkvs (other than ref), ref_state."""
        f = self.fill
        uni = f.get("*")

        def site(name, default):
            if name in f:
                return f[name]
            if uni is not None:
                return uni
            return default
        out = []
        pos = [0]
        holes = []

        def emit(s, filler=False):
            if filler:
                # comment extents inside fillers are holes for the structured insertion point
                for m in re.finditer(r"/\*.*?\*/|//[^\n]*\n?", s, re.S):
                    holes.append((pos[0] + len(s[:m.start()].encode()), pos[0] + len(s[:m.end()].encode())))
            out.append(s)
            pos[0] += len(s.encode())
        name = (self.macro[0] + "::" if self.qualified else "") + self.macro[1]
        emit(name + self.bang_gap + "!" + self.paren_gap + "(")
        gap_lo = pos[0]
        emit(site("after_open", ""), True)
        if self.target is not None:
            emit("target: " + self.target)
            emit(site("before_sep", ""), True)
            emit(",")
            gap_lo = pos[0]
            holes.clear()
            emit(site("after_target", " "), True)
        gap_hi = pos[0]
        gap_holes = list(holes)
        n = len(self.kvs)
        for i, k in enumerate(self.kvs):
            emit(k.text())
            emit(site("before_sep", ""), True)
            if i < n - 1:
                emit(",")
                emit(site("after_kv_comma", " "), True)
            else:
                emit(";")
                emit(site("after_semi", " "), True)
        emit('"')
        msg_first = pos[0]
        emit(self.msg)
        emit('"')
        emit(self.trailing)
        emit(site("before_close", ""), True)
        emit(self.close)
        ref_state = ("absent",)
        for k in self.kvs:
            if k.key == "ref" and k.mod == "":
                if k.value is None:
                    continue   # shorthand `ref`: captures a variable; the property speaks of `ref = ...` only
                if _UINT.match(k.value) and int(_UINT.match(k.value).group(1)) <= U32:
                    ref_state = ("literal", int(_UINT.match(k.value).group(1)))
                else:
                    ref_state = ("other",)
                break
        facts = {"msg_first": msg_first, "gap_lo": gap_lo, "gap_hi": gap_hi, "holes": gap_holes,
                 "nkvs": len(self.kvs), "ref_state": ref_state, "len": pos[0]}
        return "".join(out), facts

    def expected(self, base, structured, no_kvp=False):
        text, fa = self.render()
        if structured and not no_kvp:
            rs = fa["ref_state"]
            if rs[0] == "literal":
                return ("P", rs[1])
            if rs[0] == "other":
                return ("X",)
            ins = "ref = %d, " % PROBE if fa["nkvs"] > 0 else "ref = %d; " % PROBE
            return ("N", base + fa["gap_lo"], base + fa["gap_hi"], [(base + a, base + b) for a, b in fa["holes"]], ins)
        return ("S", base + fa["msg_first"], ref_rule(self.msg))


class File:
    """Concatenation of raw text pieces and statements; tracks byte offsets so that facts become absolute."""

    def __init__(self, structured):
        self.parts = []
        self.pos = 0
        self.expected = []
        self.structured = structured

    def raw(self, s):
        self.parts.append(s)
        self.pos += len(s.encode())
        return self

    def stmt(self, st, ignored=False, no_kvp=False):
        text, _ = st.render()
        if not ignored:
            self.expected.append(st.expected(self.pos, self.structured, no_kvp))
        self.parts.append(text)
        self.pos += len(text.encode())
        return self

    def build(self, crlf=False):
        text = "".join(self.parts)
        exp = self.expected
        if crlf:
            text, exp = to_crlf(text, exp)
        return text, exp


def to_crlf(text, exp):
    """Replace every \\n by \\r\\n and shift the expected offsets accordingly."""
    b = text.encode()
    nl = [i for i, c in enumerate(b) if c == 10]
    import bisect

    def sh(off):
        return off + bisect.bisect_left(nl, off)

    def sh_incl(off):   # for upper bounds that may sit right after a newline
        return off + bisect.bisect_left(nl, off)
    out = []
    for e in exp:
        if e[0] == "S":
            out.append(("S", sh(e[1]), e[2]))
        elif e[0] == "N":
            out.append(("N", sh(e[1]), sh_incl(e[2]), [(sh(a), sh(b_)) for a, b_ in e[3]], e[4]))
        else:
            out.append(e)
    return text.replace("\n", "\r\n"), out


def line_col(b, off):
    line = b.count(b"\n", 0, off) + 1
    ls = b.rfind(b"\n", 0, off) + 1
    return line, len(b[ls:off].decode("utf-8", "replace")) + 1


# ------------------------------------------------------------------------------------------------
# comparison of the implementation's entries with the model


def parse_result(line):
    """vh eval output line -> ('panic', msg) | ('pre', msg, entries) | ('ok', entries)"""
    tag, rest = line[0], line[1:]
    if tag == "!":
        return ("panic", rest)
    pre = None
    if tag == "?":
        pre, rest = rest.split("\t", 1)
    ents = []
    if rest:
        for e in rest.split("|"):
            f = e.split(",", 6)
            ents.append((int(f[0]), int(f[1]), int(f[2]), None if f[3] == "-" else int(f[3]), f[4], f[5] == "1",
                         f[6].replace("\\p", "|").replace("\\n", "\n").replace("\\t", "\t").replace("\\r", "\r").replace("\\\\", "\\")))
    if pre:
        return ("pre", pre, ents)
    return ("ok", ents)


def compare(code, expected, result):
    """Returns None if the entries agree with the model, else (class, detail)."""
    if result[0] == "panic":
        return ("panic", result[1])
    ents = result[-1]
    if result[0] == "pre":
        return ("precondition", result[1])
    if len(ents) != len(expected):
        return ("count", "expected %d entr%s, got %d" % (len(expected), "y" if len(expected) == 1 else "ies", len(ents)))
    b = code.encode()
    for i, (e, g) in enumerate(zip(expected, ents)):
        off, line, col, ref, kind, usable, ins = g
        if e[0] == "S":
            if kind != "S":
                return ("kind", "entry %d: expected message-text reference, got kind %s" % (i, kind))
            if ref != e[2]:
                return ("presence", "entry %d: expected reference %r, got %r" % (i, e[2], ref))
            if ref is None:
                if off != e[1]:
                    return ("position", "entry %d: expected insertion at byte %d, got %d" % (i, e[1], off))
                if (line, col) != line_col(b, e[1]):
                    return ("linecol", "entry %d: expected line/col %r, got %r" % (i, line_col(b, e[1]), (line, col)))
                if ins != "[ref: %d] " % PROBE:
                    return ("token", "entry %d: inserted text %r" % (i, ins))
        elif e[0] == "N":
            if kind != "N" or ref is not None or not usable:
                return ("kind", "entry %d: expected a missing structured reference, got kind %s ref %r usable %r" % (i, kind, ref, usable))
            lo, hi, holes, text = e[1], e[2], e[3], e[4]
            if not (lo <= off <= hi):
                return ("position", "entry %d: structured insertion at byte %d outside the gap [%d,%d] after target/`(`" % (i, off, lo, hi))
            for a, z in holes:
                if a < off < z:
                    return ("position", "entry %d: structured insertion at byte %d inside a comment [%d,%d)" % (i, off, a, z))
            if (line, col) != line_col(b, off):
                return ("linecol", "entry %d: line/col %r does not correspond to byte %d (%r)" % (i, (line, col), off, line_col(b, off)))
            if ins != text:
                return ("token", "entry %d: inserted text %r, expected %r" % (i, ins, text))
        elif e[0] == "P":
            if ref != e[1]:
                return ("presence", "entry %d: expected existing ref = %d, got ref %r kind %s" % (i, e[1], ref, kind))
        elif e[0] == "X":
            if ref is not None or usable:
                return ("unusable", "entry %d: expected an unusable `ref` key (no insertion), got ref %r usable %r kind %s" % (i, ref, usable, kind))
    return None


# ------------------------------------------------------------------------------------------------
# dimension alphabets (C10)

TARGETS = [None, '"t"', '"my_app::net"', '"a,b;c d"', '"//host/x"', '" sp /* c */"', '"q\\"uote"']
KV_SHAPES = ['k = 1', 'k = "v"', 'k = "a;b,c"', 'k = x', 'k', 'k:? = x', 'k:% = x', 'k:debug = x', 'k:display', 'k:err = e',
             'k:sval = x', 'k:serde = x', '_0 = 1', 'k = __', '__x1', 'k = _1', 'k = "q\\"uote"', 'k = "path\\\\"',
             # comment-like text inside a key-value string
             'k = "http://host/feed"', 'k = "a /* b */ c"', 'k = "glob/*"',
             # string-literal keys (log >= 0.4.21)
             '"q key" = 1', '"ref" = x', '"q key":? = x',
             # a block inside the value, with a statement and a string literal of its own; a struct literal with commas
             'k = if c { g(); "p" } else { "q" }', 'k = m { a: 1, b: "v" }.b',
             # expressions with a string literal in the middle, commas and semicolons inside brackets, a bracket in a character literal
             'k = x == "y"', 'k = h(1, "a;b")', 'k = t[i]', 'k = vec!["p"; 2].len()', "k = s.find('(')",
             # comparison / shift / arrow characters inside brackets; comment-like text in a quoted key; a quote as an escaped character literal
             'k = check(n > 0, y)', 'k = match n { 1 => "one", _ => "many" }', 'k = max(x >> 1, y)', '"http://probe" = x',
             "k = line.find('\\\"')", 'k = sum(v[0], v[1])']
MESSAGES = ['plain', '{} {}', '{name:?}', 'say \\"hi\\"', 'é名😀', 'mid [ref: 12] text', ' leading blank', '\\tleading escape',
            '//host/path', '/* x */ y', '', '{{x}}', 'ends \\\\']
TRAILING = ['', ', x', ', x, y', ', a = 1', ', "lit"', ',']
FILLERS = [None, '', ' ', '  ', '\n    ', '\r\n\t', ' /* c */ ', ' /* ; , " */ ', ' // c\n    ', '\n', ' // c\n', ' /* a /* b */ c */ ', '\x0c', '\u2028', ' \u200e', '\x0b\u0085',
           ' /* c */\u200e', '\u200f/* c */ ', ' // c\n\u200e']
SITES = ['after_open', 'after_target', 'after_kv_comma', 'after_semi', 'before_sep', 'before_close']
CTX_BEFORE = ['', '  ', '\t', '{ ', '; ', '=> ', 'return ', 'break ', 'let _ = ', 'x = ', '} else { ', '|e| ', 'foo(); ', '/* c */ ',
              '"s" ', 'é; ', "let c = '\"'; ", "m(b'\"'); ", 'let r = r#"x"y"#; ',
              # the statement inside a macro invoked with braces / brackets (select!, cfg_if!, thread_local!, vec!)
              'tokio::select! { v = rx.recv() => { ', 'm!{ a = ', 'v![k = ', 'thread_local! { static A: u8 = { ', 'cfg_if! { if #[cfg(x)] { ',
              # ordinary literals with comment-like or macro-like text before the statement on its line
              'let u = "http://h"; ', 'let g = "src/*"; ', 'let r = r#"x // y "z" "#; ', 'let s = "see info!("; ', "let q = ('\\'', b'/', '/'); ",
              # raw byte / C strings: a trailing backslash and an odd number of quotes are plain content there
              'let p = br"C:\\data\\"; ', 'let h = cr#"type "q to quit: "#; ', 'let e = r"\\"; ',
              # the statement as the value of a key-value-shaped argument of another macro invoked with parentheses (round 16; see the
              # open C10 finding in DESIGN section 11: with `; "literal"` after it the outer invocation has the shape of a log statement)
              'm!( a = ']
CTX_AFTER = [';\n', ')\n', ' }\n', ',\n', ';', '; "done" } }\n', '; "lit" ]\n']   # index 4: end of file without a newline


def kv_lists(maxn, shapes=KV_SHAPES):
    """All lists of 0..maxn key-values over `shapes`, keys renamed k1,k2,... so that they are distinct."""
    out = [[]]
    for n in range(1, maxn + 1):
        for combo in itertools.product(shapes, repeat=n):
            out.append([re.sub(r"^k", "k%d" % (i + 1), c) for i, c in enumerate(combo)])
    return out
