"""Python side of engine E3: feeds generated cases to `vh eval` (the real parser in-process) and compares the
entries with the reference model. Generation + comparison run in a multiprocessing pool, one vh process per worker."""
import json
import multiprocessing
import os
import subprocess

import gen
from vcommon import NCPU, VH_BIN, MachineryError, scratch_dir

_CFG_PATHS = None


def cfg_paths():
    global _CFG_PATHS
    if _CFG_PATHS is None:
        d = scratch_dir("vhcfg")
        _CFG_PATHS = []
        for i, y in enumerate(gen.all_configs()):
            p = os.path.join(d, "cfg%d.yaml" % i)
            with open(p, "w") as f:
                f.write(y)
            _CFG_PATHS.append(p)
    return _CFG_PATHS


def esc(s):
    return s.replace("\\", "\\\\").replace("\n", "\\n").replace("\t", "\\t").replace("\r", "\\r")


def eval_cases(cases, paths=None):
    """cases: list of (cfg_idx, code). Returns list of parsed results, same order."""
    paths = paths or cfg_paths()
    inp = "".join("%d\t%s\n" % (c, esc(code)) for c, code in cases).encode("utf-8")
    p = subprocess.run([VH_BIN, "eval"] + paths, input=inp, stdout=subprocess.PIPE, stderr=subprocess.PIPE)
    if p.returncode != 0:
        raise MachineryError("vh eval failed (%d): %s" % (p.returncode, p.stderr.decode("utf-8", "replace")[-2000:]))
    lines = p.stdout.decode("utf-8").split("\n")
    if lines and lines[-1] == "":
        lines.pop()
    if len(lines) != len(cases):
        raise MachineryError("vh eval returned %d lines for %d cases" % (len(lines), len(cases)))
    return [gen.parse_result(l) for l in lines]


def _work(args):
    """args = (builder module name, builder function name, chunk spec, cfg paths). The builder yields
    (cfg_idx, code, expected, label). Returns a summary dict."""
    modname, fname, spec, paths = args
    mod = __import__(modname)
    cases = list(getattr(mod, fname)(spec))
    res = eval_cases([(c[0], c[1]) for c in cases], paths)
    fails = []
    nonvac = 0
    seen = set()
    for (ci, code, exp, label), r in zip(cases, res):
        if exp:
            nonvac += 1
        seen.add(hash((ci, code)))
        m = gen.compare(code, exp, r)
        if m:
            fails.append({"cfg": ci, "code": code, "label": label, "class": m[0], "detail": m[1],
                          "expected": repr(exp)[:300], "got": repr(r)[:300]})
    return {"n": len(cases), "nonvacuous": nonvac, "fails": fails[:300], "nfails": len(fails), "hashes": seen,
            "sample": (cases[len(cases) // 2][1], repr(cases[len(cases) // 2][2])) if cases else None}


class Pool:
    def __init__(self):
        self.pool = multiprocessing.Pool(NCPU)
        self.paths = cfg_paths()

    def run(self, modname, fname, specs):
        """Evaluate builder(spec) for every spec in parallel; returns aggregated summary."""
        agg = {"n": 0, "nonvacuous": 0, "fails": [], "nfails": 0, "distinct": 0, "samples": []}
        hashes = set()
        for r in self.pool.imap_unordered(_work, [(modname, fname, s, self.paths) for s in specs]):
            agg["n"] += r["n"]
            agg["nonvacuous"] += r["nonvacuous"]
            agg["nfails"] += r["nfails"]
            if len(agg["fails"]) < 3000:
                agg["fails"].extend(r["fails"])
            hashes |= r["hashes"]
            if r["sample"] and len(agg["samples"]) < 3:
                agg["samples"].append(r["sample"])
        agg["distinct"] = len(hashes)
        return agg

    def close(self):
        self.pool.close()
        self.pool.join()


def run_native(mode, args, parts=NCPU, timeout=3600):
    """Run a native vh mode partitioned over `parts` processes (VH_PART=i/n); returns the list of JSON summaries."""
    procs = []
    for i in range(parts):
        env = dict(os.environ, VH_PART="%d/%d" % (i, parts))
        procs.append(subprocess.Popen([VH_BIN, mode] + [str(a) for a in args], stdout=subprocess.PIPE, stderr=subprocess.PIPE, env=env))
    outs = []
    for p in procs:
        o, e = p.communicate(timeout=timeout)
        if p.returncode != 0:
            raise MachineryError("vh %s failed (%s): %s" % (mode, p.returncode, e.decode("utf-8", "replace")[-2000:]))
        outs.append(json.loads(o.decode("utf-8")))
    return outs


def _oi_work(args):
    a_idx, cases, paths = args
    a = cases[a_idx]
    seq = []
    for b in cases:
        seq.append(a)
        seq.append(b)
    res = eval_cases(seq, paths)
    return a_idx, [res[2 * i + 1] for i in range(len(cases))]


def order_independence(cases, pool):
    """The finder must be a function of (configuration, text): for every ordered pair (A, B) of `cases`, the entries returned for B
    right after A has been parsed in the same process must equal those returned for B as the first input of a fresh process.
    Returns list of (a_index, b_index, baseline, got)."""
    paths = cfg_paths()
    base = [eval_cases([c], paths)[0] for c in cases]
    bad = []
    for a_idx, after in pool.imap_unordered(_oi_work, [(i, cases, paths) for i in range(len(cases))]):
        for b_idx, r in enumerate(after):
            if r != base[b_idx]:
                bad.append((a_idx, b_idx, base[b_idx], r))
    return bad
