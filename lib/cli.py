"""E4 core: project trees, running the real binary, report parsing, token-strip diff, snapshots."""
import os
import re
import signal
import stat
import subprocess
import hashlib

from vcommon import BIN, SHIM

DEFAULT_MACROS = [("log", "info"), ("log", "warn"), ("log", "error")]


def config_yaml(source_dir="./src", structured=None, use_cache=None, extensions=None, macros=None):
    macros = DEFAULT_MACROS if macros is None else macros
    out = ["---", "source_dir: %s" % source_dir]
    if use_cache is not None:
        out.append("use_cache: %s" % ("true" if use_cache else "false"))
    out.append("rust:")
    if structured is not None:
        out.append("  structured: %s" % ("true" if structured else "false"))
    out.append("  log_macros:")
    for m, n in macros:
        out.append("    - module: %s" % _yq(m))
        out.append("      name: %s" % _yq(n))
    if extensions is not None:
        out.append("  extensions:")
        for e in extensions:
            out.append("    - %s" % _yq(e))
    return "\n".join(out) + "\n"


def _yq(s):
    return '"' + s.replace("\\", "\\\\").replace('"', '\\"') + '"'


def lock_yaml(n):
    return ("# AUTO-GENERATED FILE - DON'T EDIT\n# If you would like to recalculate the next reference from your code, "
            "delete this file and\n# run Breadlog.\n\nnext_reference_id: %d\n" % n)


def read_lock(path):
    """Returns None (absent), 'corrupt', or the integer."""
    try:
        txt = open(path, "rb").read().decode("utf-8", "replace")
    except FileNotFoundError:
        return None
    except IsADirectoryError:
        return "corrupt"
    m = re.search(r"^next_reference_id:\s*([0-9]+)\s*$", txt, re.M)
    if not m:
        return "corrupt"
    v = int(m.group(1))
    return v if v <= 0xFFFFFFFF else "corrupt"


def write_tree(root, files):
    """files: dict relpath -> bytes/str ; created in sorted order."""
    for rel in sorted(files):
        p = os.path.join(root, rel)
        os.makedirs(os.path.dirname(p), exist_ok=True)
        c = files[rel]
        if isinstance(c, str):
            c = c.encode("utf-8")
        with open(p, "wb") as f:
            f.write(c)


def read_tree(root, sub=""):
    out = {}
    base = os.path.join(root, sub) if sub else root
    for dp, dn, fn in os.walk(base):
        dn.sort()
        for n in sorted(fn):
            p = os.path.join(dp, n)
            if os.path.islink(p) or not os.path.isfile(p):
                continue
            with open(p, "rb") as f:
                out[os.path.relpath(p, root)] = f.read()
    return out


class Run:
    __slots__ = ("exit", "signal", "stdout", "stderr", "timed_out", "trace", "wall", "cpu")

    def __repr__(self):
        return "Run(exit=%r signal=%r timed_out=%r)" % (self.exit, self.signal, self.timed_out)

    @property
    def panicked(self):
        return self.exit == 101 or b"panicked at" in self.stderr or (self.signal in (signal.SIGABRT, signal.SIGSEGV, signal.SIGBUS, signal.SIGILL))


def run_breadlog(config_path, check=False, cwd=None, env=None, tmpdir=None, timeout=60, shim=None, binary=None, wrapper=(), ignored_at_entry=()):
    """shim: dict(log=path, roots=[...], plan=str) to run under the interposer."""
    import time
    e = dict(os.environ if env is None else env)
    e.pop("RUST_LOG", None)
    e["RUST_BACKTRACE"] = "0"
    if tmpdir is not None:
        e["TMPDIR"] = tmpdir
    if shim:
        e["LD_PRELOAD"] = SHIM
        e["FSX_LOG"] = shim["log"]
        e["FSX_ROOTS"] = ":".join(shim["roots"])
        e["FSX_PLAN"] = shim.get("plan", "")
        e["FSX_STICKY_PATH_PREFIX"] = shim.get("sticky_prefix", "")
        e["FSX_XDEV_PARENT"] = shim.get("xdev_parent", "")
        open(shim["log"], "wb").close()
    cmd = list(wrapper) + [binary or BIN, "-c", config_path]
    if check:
        cmd.append("--check")
    import resource
    r = Run()
    t0 = time.time()
    ru0 = resource.getrusage(resource.RUSAGE_CHILDREN)
    try:
        pre = None
        if ignored_at_entry:
            sigs = tuple(ignored_at_entry)

            def pre():      # dispositions the process inherits (what `nohup` or a non-interactive shell's `&` set up)
                for sg in sigs:
                    signal.signal(sg, signal.SIG_IGN)
        p = subprocess.run(cmd, cwd=cwd, env=e, stdout=subprocess.PIPE, stderr=subprocess.PIPE, timeout=timeout, preexec_fn=pre)
        r.timed_out = False
        r.stdout, r.stderr = p.stdout, p.stderr
        if p.returncode < 0:
            r.exit, r.signal = None, -p.returncode
        else:
            r.exit, r.signal = p.returncode, None
    except subprocess.TimeoutExpired as ex:
        r.timed_out = True
        r.exit, r.signal = None, None
        r.stdout, r.stderr = ex.stdout or b"", ex.stderr or b""
    r.wall = time.time() - t0
    ru1 = resource.getrusage(resource.RUSAGE_CHILDREN)
    # CPU seconds of the child (meaningful when the caller runs one child at a time, as the pool workers do); independent of machine load
    r.cpu = (ru1.ru_utime - ru0.ru_utime) + (ru1.ru_stime - ru0.ru_stime)
    r.trace = parse_trace(shim["log"]) if shim else None
    return r


# ------------------------------------------------------------------------------------------------
# shim trace


class Op:
    __slots__ = ("k", "tid", "op", "cls", "path", "path2", "flags", "len", "res", "errno", "note")

    def __repr__(self):
        return "%d:%s[%s] %s %s len=%d res=%d errno=%d %s" % (self.k, self.op, self.cls, self.path, self.path2, self.len, self.res, self.errno, self.note)


def _unesc(s):
    return s.replace("\\t", "\t").replace("\\n", "\n").replace("\\r", "\r").replace("\\\\", "\\")


def parse_trace(path):
    ops = []
    try:
        data = open(path, "rb").read().decode("utf-8", "surrogateescape")
    except FileNotFoundError:
        return ops
    for line in data.split("\n"):
        if not line:
            continue
        f = line.split("\t")
        if len(f) < 11:
            continue
        o = Op()
        o.k, o.tid, o.op, o.cls = int(f[0]), int(f[1]), f[2], f[3]
        o.path, o.path2 = _unesc(f[4]), _unesc(f[5])
        o.flags, o.len, o.res, o.errno, o.note = int(f[6]), int(f[7]), int(f[8]), int(f[9]), f[10]
        ops.append(o)
    return ops


_TMP_RE = re.compile(r"breadlog-[0-9a-f]{8}-[0-9a-f]{4}-[0-9a-f]{4}-[0-9a-f]{4}-[0-9a-f]{12}\.tmp")
# a random part in the name of a scratch file that lives elsewhere (e.g. beside the file it replaces): "the n-th random name"
_RND_RE = re.compile(r"[0-9a-fA-F]{8}-[0-9a-fA-F]{4}-[0-9a-fA-F]{4}-[0-9a-fA-F]{4}-[0-9a-fA-F]{12}|[0-9a-fA-F]{16,}")


def normalise_trace(ops, roots=()):
    """Tuple form used for determinism comparison: temp names -> TMP#n, roots -> $Ri, no tid, no log lengths."""
    names = {}
    out = []

    def norm(p):
        def sub(m):
            if m.group(0) not in names:
                names[m.group(0)] = "TMP#%d" % len(names)
            return names[m.group(0)]
        p = _TMP_RE.sub(sub, p)
        p = _RND_RE.sub(sub, p)
        for i, r in enumerate(roots):
            if p == r or p.startswith(r + "/"):
                p = "$R%d" % i + p[len(r):]
                break
        # whatever a scratch file in the harness TMPDIR ($R1) is called, it is "the n-th scratch file"
        if p.startswith("$R1/") and "TMP#" not in p:
            if p not in names:
                names[p] = "$R1/TMP#%d" % len(names)
            p = names[p]
        return p
    for o in ops:
        if o.op == "signal" or o.note.startswith("KILLED"):
            continue
        ln = 0 if o.cls == "log" else o.len
        res = (1 if o.res >= 0 else -1) if o.cls == "log" or o.op in ("open", "creat", "openw") else o.res
        out.append((o.op, o.cls, norm(o.path), norm(o.path2), ln, res, o.errno))
    return out


# ------------------------------------------------------------------------------------------------
# snapshots


def snapshot(root, with_meta=True):
    """path -> tuple describing the entry. atime excluded."""
    out = {}
    if not os.path.lexists(root):
        return out
    for dp, dn, fn in os.walk(root):
        dn.sort()
        for n in sorted(dn + fn):
            p = os.path.join(dp, n)
            rel = os.path.relpath(p, root)
            st = os.lstat(p)
            if stat.S_ISLNK(st.st_mode):
                ent = ("l", os.readlink(p))
            elif stat.S_ISDIR(st.st_mode):
                ent = ("d", stat.S_IMODE(st.st_mode))
            elif stat.S_ISREG(st.st_mode):
                with open(p, "rb") as f:
                    h = hashlib.sha1(f.read()).hexdigest()
                ent = ("f", stat.S_IMODE(st.st_mode), st.st_size, h)
            else:
                ent = ("o", stat.S_IMODE(st.st_mode))
            if with_meta and not stat.S_ISDIR(st.st_mode):
                ent = ent + (st.st_mtime_ns, st.st_ino, st.st_nlink)
            elif with_meta:
                ent = ent + (st.st_mtime_ns, st.st_ino)
            out[rel] = ent
    return out


def snapshot_diff(a, b):
    d = []
    for k in sorted(set(a) | set(b)):
        if a.get(k) != b.get(k):
            d.append((k, a.get(k), b.get(k)))
    return d


# ------------------------------------------------------------------------------------------------
# report parsing

# tolerant patterns, anchored on the user-visible phrases only: wording added after the numbers (an excerpt, a hint) must not blind the checks
_RE_MISSING = re.compile(rb"Missing reference in file (.*?), line ([0-9]+), column ([0-9]+)")
_RE_UNUSABLE = re.compile(rb"Unusable reference will be ignored in file (.*?), line ([0-9]+), column ([0-9]+)")
_RE_TOTAL_FILE = re.compile(rb"Total missing references in (.*): ([0-9]+)")
_RE_TOTAL_ALL = re.compile(rb"Total missing references \(all files\): ([0-9]+)")
_RE_INSERTED = re.compile(rb"Num\. inserted reference\(s\): ([0-9]+)")
# fall-backs for reworded summaries (the properties cite only the per-statement phrase literally)
_RE_TOTAL_ALL2 = re.compile(rb"(?i)missing references[^0-9\n]*all files[^0-9\n]*?([0-9]+)")
_RE_INSERTED2 = re.compile(rb"(?i)inserted[^0-9\n]*?([0-9]+)")
_RE_READFAIL = re.compile(rb"Failed to read file (.*?): ")


# Fallbacks for a reworded report. Only the lines the repository's own tests pin down ("Total missing references (all files): N",
# "Num. inserted reference(s): N") are taken as fixed; a location may be printed as "... file F, line L, column C" or compiler-style
# "F:L:C: ...", with F absolute or relative to the working / configuration / source directory.
_RE_LOC_WORDS = re.compile(rb"(?i)^(.*?)[,:;]?\s*\(?\bline\s*[:=]?\s*([0-9]+)\s*[,;:]?\s*\bcol(?:umn)?\.?\s*[:=]?\s*([0-9]+)")
_RE_LOC_COLONS = re.compile(rb"^(.*?):([0-9]+):([0-9]+)(?::|\s|$)")
_RE_UNUSABLE_WORD = re.compile(rb"(?i)unusable|not usable|cannot be used|invalid")
_RE_READFAIL_WORD = re.compile(rb"(?i)\b(?:un)?read|utf-?8|\btext\b|decod|\bskip")      # (not the "read" in "breadlog")
_STRIP = " \t'\"`:,;()[]<>"


def _norm(p):
    p = os.path.normpath(p)
    return p[2:] if p.startswith("./") else p


class Report:
    """What a run printed. `names`: the files of the tree, relative to the source directory `src` (absolute path, optional); when given,
    every reported file name is resolved to one of them (entries that resolve to none keep the text as printed), whatever form it was
    printed in. `err`: the run's stderr, searched for read-failure messages as well. `bases` (instead of `names`, while the tree still
    exists): strict resolution for checks about *which* files are looked at - a printed name becomes an absolute path only if something
    exists under it, as it stands or below the first of the given directories where it does; nothing is matched by its ending."""

    def __init__(self, out, names=None, src=None, err=b"", bases=None):
        self.missing = []   # (file, line, col)
        self.unusable = []
        self.file_totals = {}
        self.total = None
        self.inserted = None
        self.read_failures = []
        self.names = set(_norm(n) for n in names) if names is not None else None
        self._by_base = {}
        for n in self.names or ():
            self._by_base.setdefault(os.path.basename(n), []).append(n)
        self.bases = [os.path.normpath(b) for b in bases] if bases is not None else None
        self.srcs = []
        if src:
            self.srcs = [os.path.normpath(src)]
            try:
                rp = os.path.realpath(src)
                if rp not in self.srcs:
                    self.srcs.append(rp)
            except OSError:
                pass
        lines = out.split(b"\n")
        primary_loc = False
        loc_lines = set()
        for i_, line in enumerate(lines):
            loc_lines.add(i_)
            m = _RE_MISSING.search(line)
            if m:
                self.missing.append((self._name(m.group(1)), int(m.group(2)), int(m.group(3))))
                primary_loc = True
                continue
            m = _RE_UNUSABLE.search(line)
            if m:
                self.unusable.append((self._name(m.group(1)), int(m.group(2)), int(m.group(3))))
                primary_loc = True
                continue
            m = _RE_TOTAL_FILE.search(line)
            if m:
                self.file_totals[self._name(m.group(1))] = int(m.group(2))
                continue
            m = _RE_TOTAL_ALL.search(line)
            if m:
                self.total = int(m.group(1))
                continue
            m = _RE_INSERTED.search(line)
            if m:
                self.inserted = int(m.group(1))
                continue
            m = _RE_READFAIL.search(line)
            if m:
                self.read_failures.append(self._name(m.group(1)))
                continue
            loc_lines.discard(i_)       # (a line none of the patterns spoke for)
        if not primary_loc:
            for i, line in enumerate(lines):
                got = self._generic_location(line)
                if got:
                    loc_lines.add(i)
                    (self.unusable if _RE_UNUSABLE_WORD.search(line) else self.missing).append(got)
        if self.total is None:
            for line in lines:
                m = _RE_TOTAL_ALL2.search(line)
                if m:
                    self.total = int(m.group(1))
        if self.inserted is None:
            for line in lines:
                m = _RE_INSERTED2.search(line)
                if m:
                    self.inserted = int(m.group(1))
        if not self.read_failures and (self.names is not None or self.bases is not None):
            for i, line in list(enumerate(lines)) + [(None, l) for l in err.split(b"\n")]:
                if i in loc_lines or not _RE_READFAIL_WORD.search(line):
                    continue
                for tok in self._candidates(line):
                    r = self._resolve_one(tok)
                    if r is not None:
                        self.read_failures.append(r)
                        break

    # -- file names ------------------------------------------------------------------------------
    def _resolve_one(self, text):
        c = _norm(text.strip(_STRIP)) if text.strip(_STRIP) else ""
        if not c:
            return None
        if self.bases is not None:
            if os.path.isabs(c):
                return c if os.path.lexists(c) else None
            for b in self.bases:
                p = os.path.normpath(os.path.join(b, c))
                if os.path.lexists(p):
                    return p
            return None
        if self.names is None:
            return None
        if os.path.isabs(c):
            for s_ in self.srcs:
                if c.startswith(s_ + "/") and c[len(s_) + 1:] in self.names:
                    return c[len(s_) + 1:]
        elif c in self.names:
            return c
        best = None
        for n in self._by_base.get(os.path.basename(c), ()):
            if c.endswith("/" + n) and (best is None or len(n) > len(best)):
                best = n
        return best

    def _candidates(self, raw):
        """The text as a whole, then what follows each blank (a log prefix, or words before the name), longest first; then single words."""
        t = raw.decode("utf-8", "surrogateescape")
        out = [t] + [t[i + 1:] for i, ch in enumerate(t) if ch == " "]
        return out + t.split()

    def _name(self, raw):
        t = raw.decode("utf-8", "surrogateescape")
        if self.names is None and self.bases is None:
            return t
        r = self._resolve_one(t)
        return r if r is not None else t

    def _generic_location(self, line):
        for rx in (_RE_LOC_WORDS, _RE_LOC_COLONS):
            m = rx.search(line)
            if not m:
                continue
            before = m.group(1)
            if self.names is not None or self.bases is not None:
                for cand in self._candidates(before)[:1 + before.count(b" ")]:
                    r = self._resolve_one(cand)
                    if r is not None:
                        return (r, int(m.group(2)), int(m.group(3)))
                continue
            toks = [t.strip(_STRIP) for t in before.decode("utf-8", "surrogateescape").split()]
            toks = [t for t in toks if "/" in t or "." in t]
            if toks:
                return (toks[-1], int(m.group(2)), int(m.group(3)))
        return None


# ------------------------------------------------------------------------------------------------
# token-strip diff

# (IDs above i32::MAX are written as `ref = Nu32`: a bare literal that large does not compile as a key-value - fix 4 of round 8, DESIGN section 11)
_TOKEN_RE = re.compile(rb"\[ref: [0-9]+\] |ref = [0-9]+(?:u32)?[;,] ")


def token_strip(old, new):
    """If `new` is `old` plus inserted reference tokens only, return [(offset_in_old, token_bytes)], else None.

    Backtracking (iterative depth-first search, so that files with tens of thousands of tokens do not hit the recursion limit) over
    every token-shaped substring of `new`: include = it was inserted, exclude = it is part of the original text;
    leftmost-insertion-first.
    """
    if old == new:
        return []
    if len(new) < len(old):
        return None
    need = len(new) - len(old)
    cands = [(m.start(), m.end()) for m in _TOKEN_RE.finditer(new)]
    n = len(cands)
    acc = []
    stack = [(0, 0, 0, 0)]          # (candidate index, bytes removed, verified position in new, len(acc))
    dead = set()
    steps = 0
    while stack:
        i, removed, pos, alen = stack.pop()
        del acc[alen:]
        while True:
            steps += 1
            if steps > 5_000_000:
                return None         # pathological ambiguity: give up (never observed)
            if removed == need:
                if new[pos:] == old[pos - removed:]:
                    return list(acc)
                break
            if i >= n or (i, removed, pos) in dead:
                break
            s, e = cands[i]
            if s < pos:
                i += 1
                continue
            if new[pos:s] != old[pos - removed:s - removed]:
                dead.add((i, removed, pos))
                break
            if removed + (e - s) <= need:
                stack.append((i + 1, removed, s, len(acc)))        # alternative: the candidate is original text
                acc.append((s - removed, new[s:e]))
                removed += e - s
                pos = e
            else:
                pos = s
            i += 1
    return None


def line_col(data, off):
    """1-based line and column (in characters) of byte offset `off` in bytes `data` (lines end at \\n)."""
    line = data.count(b"\n", 0, off) + 1
    ls = data.rfind(b"\n", 0, off) + 1
    col = len(data[ls:off].decode("utf-8", "replace")) + 1
    return line, col


def token_id(tok):
    return int(re.search(rb"[0-9]+", tok).group(0))


def token_style(tok):
    return "msg" if tok.startswith(b"[") else "kv"
