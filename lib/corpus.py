"""Real-code corpora shipped with the repository (read-only): Rocket's core tree, fib-rs, and Breadlog's own sources."""
import os
import re

from vcommon import REPO


def files(max_bytes=None):
    out = []
    roots = [os.path.join(REPO, "tests", "rust_data", "rocket", "core"), os.path.join(REPO, "tests", "rust_data", "fib-rs"),
             os.path.join(REPO, "src")]
    for r in roots:
        for dp, dn, fn in os.walk(r):
            dn.sort()
            for n in sorted(fn):
                if n.endswith(".rs"):
                    p = os.path.join(dp, n)
                    b = open(p, "rb").read()
                    if max_bytes is None or len(b) <= max_bytes:
                        out.append((os.path.relpath(p, REPO), b))
    return out


_TOK = re.compile(r'//[^\n]*|/\*.*?\*/|"(?:\\.|[^"\\])*"|[A-Za-z_][A-Za-z0-9_]*|[0-9]+|\s+|.', re.S)
MACRO_RE = re.compile(r"^(info|warn|error|info_|warn_|error_)$")


def tokens(text):
    return _TOK.findall(text)


def neighbourhood_edits(text, window=2):
    """Every single-token deletion and duplication inside a +-window (non-blank tokens) around each configured-macro
    occurrence. Yields (description, edited text)."""
    toks = tokens(text)
    sig = [i for i, t in enumerate(toks) if not t.isspace()]
    pos_in_sig = {i: k for k, i in enumerate(sig)}
    done = set()
    for i, t in enumerate(toks):
        if MACRO_RE.match(t) and i + 1 < len(toks) and toks[i + 1] == "!":
            k = pos_in_sig[i]
            for kk in range(max(0, k - window), min(len(sig), k + 3 + window)):
                j = sig[kk]
                if j in done:
                    continue
                done.add(j)
                yield ("del@%d" % j, "".join(toks[:j] + toks[j + 1:]))
                yield ("dup@%d" % j, "".join(toks[:j + 1] + toks[j:]))
