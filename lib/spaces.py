"""Input families shared by the CLI-level checks C03 / C05 / C06 (each family is enumerated completely)."""
import itertools

import gen


def c10_core(stride=1):
    import c10
    for t in itertools.islice(c10.core_product(), 0, None, stride):
        ci, code, exp, label = c10.build_one(t)
        yield ci, code, ("c10core", label, exp)


def c10_layouts():
    """every filler at every gap site x target x key-values{none, two} x style (default context)"""
    import c10
    ix = {n: i for i, n in enumerate(c10.NAMES)}
    for fi in range(len(c10.FILLCFG)):
        for ti in range(len(gen.TARGETS)):
            for ki in (c10.KVS.index([]), c10.KVS.index(['k1 = 1', 'k2'])):
                for si in (0, 1):
                    t = list(c10.DEFAULT)
                    t[ix["fill"]], t[ix["target"]], t[ix["kvs"]], t[ix["style"]] = fi, ti, ki, si
                    ci, code, exp, label = c10.build_one(tuple(t))
                    yield ci, code, ("c10layout", label, exp)


def c10_pairs():
    import c10
    for t in c10.pairs(2):
        ci, code, exp, label = c10.build_one(t)
        yield ci, code, ("c10pairs", label, exp)


def c13_default_layout(tier="quick"):
    import c13
    for t in c13.space(tier):
        if t[4] == 0:
            ci, code, exp, label = next(c13.build([t]))
            yield ci, code, ("c13", label, exp)


def c14_short():
    import c14
    for t in c14.space("quick"):
        if len(t[0]) <= 1 and t[7] == 0:
            ci, code, exp, label = next(c14.build([t]))
            yield ci, code, ("c14", label, exp)


def c11_short(maxlen=2):
    import c11
    for t in c11.space(maxlen):
        ci, code, exp, label = next(c11.build([t]))
        yield ci, code, ("c11", label, exp)


def token_sequences(maxlen):
    import c17
    seen = set()
    for L in range(1, maxlen + 1):
        for t in itertools.product(c17.SIGMA, repeat=L):
            s = "".join(t)
            if s in seen:
                continue
            seen.add(s)
            for st in (False, True):
                yield gen.cfg_index(0, st), s, ("tokens", L)


PRECEDERS = {"ascii": "a", "2-byte": "é", "3-byte": "名", "4-byte": "😀", "crlf": "\r\n", "tab": "\t"}
WIDTHS = {"short": 0, "300B": 300, "9KiB": 9000}


def multi_insertion(counts=(0, 1, 2, 3, 4, 10, 100), big_counts=(1000, 2000)):
    """n statements per file x statement width x what precedes each insertion point. Drives several write_all chunks and
    write-cache drains per file."""
    for n in tuple(counts) + tuple(big_counts):
        for wname, w in WIDTHS.items():
            if w * n > 3_000_000:
                continue
            for pname, p in PRECEDERS.items():
                for st in (False, True):
                    parts = ["// multi-insertion %d %s %s\n" % (n, wname, pname)]
                    for i in range(n):
                        filler = ("/* " + "w" * w + " */ ") if w else ""
                        # `p` sits immediately before the statement, i.e. before the structured insertion point's line
                        # and inside the line for the unstructured one
                        parts.append("fn f%d() { let _s = \"%s\"; %s%s info!(\"%s message %d {}\", %d); }\n" % (i, p if p not in ("\r\n", "\t") else "x", filler, p, p if p not in ("\r\n",) else "x", i, i))
                    yield gen.cfg_index(0, st), "".join(parts), ("multi", n, wname, pname)


def corpus_files(with_edits=False, max_bytes=None):
    import corpus
    for rel, b in corpus.files(max_bytes=max_bytes):
        text = b.decode("utf-8")
        for st in (False, True):
            yield gen.cfg_index(0, st), text, ("corpus", rel)
        if with_edits:
            for desc, ed in corpus.neighbourhood_edits(text):
                for st in (False, True):
                    yield gen.cfg_index(0, st), ed, ("corpus-edit", rel, desc)


BAD_UTF8 = {"lone-continuation": b"\x80", "truncated-2": b"\xc3", "truncated-3": b"\xe2\x82", "truncated-4": b"\xf0\x9f\x98",
            "overlong": b"\xc0\xaf", "surrogate": b"\xed\xa0\x80", "ff": b"\xff", "latin1-word": b"caf\xe9", "utf16-bom": b"\xff\xfei\x00"}


def invalid_utf8_files():
    """Files that are not valid UTF-8 and also contain statements without a reference (bytes, not str): whatever Breadlog does
    with them, it must not rewrite any byte that is not an inserted token."""
    shapes = {
        "in-comment": lambda b: b"// note: " + b + b"\nfn f() { info!(\"needs a ref\"); }\n",
        "in-message": lambda b: b"fn f() { info!(\"msg " + b + b" end\"); warn!(\"second\"); }\n",
        "in-other-literal": lambda b: b"const S: &[u8] = b\"" + b + b"\";\nfn f() { info!(\"needs a ref\"); }\n",
        "at-start": lambda b: b + b"\nfn f() { info!(\"needs a ref\"); }\n",
        "at-end": lambda b: b"fn f() { info!(\"needs a ref\"); }\n" + b,
        "after-referenced": lambda b: b"fn f() { info!(\"[ref: 3] ok " + b + b"\"); info!(\"needs\"); }\n",
    }
    for bname, b in BAD_UTF8.items():
        for sname, mk in shapes.items():
            for st in (False, True):
                yield gen.cfg_index(0, st), mk(b), ("invalid-utf8", bname, sname)


def file_start_variants():
    """What a file starts with: byte-order mark, BOM + CRLF, shebang line, inner attribute, nothing; statement on the first line or later."""
    starts = ["", "\ufeff", "\ufeff\r\n", "#!/usr/bin/env run-cargo-script\n", "#![allow(unused)]\n", "\ufeff// é\n"]
    bodies = ['info!("first line");\nfn f() {\n    warn!(a = 1; "second {}", 2);\n}\n',
              'fn f() {\n\tinfo!(target: "t", "tab indented é");\n\terror!("[ref: 9] has one");\n}\n',
              'fn f() { info!("one"); info!("two on the same line"); }', "", "\n\n", "   ", "// only a comment", 'info!("x")']
    for st in starts:
        for b in bodies:
            for crlf in (False, True):
                text = st + (b.replace("\n", "\r\n") if crlf else b)
                for style in (False, True):
                    yield gen.cfg_index(0, style), text, ("file-start", st, crlf)


def size_boundary_sweep(boundaries=(512, 1024, 4096, 8192, 16384, 65536, 131072), radius=3):
    """Files whose total size, and whose insertion offset, sweep every value within `radius` of a power-of-two boundary
    (buffer / chunk sizes are where copy-through loops go wrong)."""
    for B in boundaries:
        for d in range(-radius, radius + 1):
            for where in ("end", "start"):
                stmt = 'fn f() { info!("boundary {}", 1); }\n'
                if where == "end":
                    # insertion offset lands at B + d: pad in front with a comment
                    off_in_stmt = stmt.index('"') + 1
                    pad = B + d - off_in_stmt
                    if pad < 4:
                        continue
                    text = "//" + "p" * (pad - 3) + "\n" + stmt
                else:
                    # total size B + d: statement first, padding behind
                    pad = B + d - len(stmt)
                    if pad < 4:
                        continue
                    text = stmt + "//" + "q" * (pad - 3) + "\n"
                for style in (False, True):
                    yield gen.cfg_index(0, style), text, ("size-boundary", B, d, where)


ODD_CHARS = {"NUL": "\x00", "lone-CR": "\r", "VT": "\x0b", "FF": "\x0c", "NEL": "\u0085", "LS": "\u2028", "PS": "\u2029", "LRM": "\u200e",
             "ZWSP": "\u200b", "DEL": "\x7f", "NBSP": "\u00a0", "combining": "e\u0301"}


def odd_characters():
    """Unusual but legal characters before a statement, between its arguments, inside the message and after it."""
    for name, ch in ODD_CHARS.items():
        shapes = [ch + 'info!("m");\n', 'fn f() {\n' + ch + ' info!("m");\n}\n', 'fn f() { info!(' + ch + '"m"); }\n',
                  'fn f() { info!("' + ch + 'm"); }\n', 'fn f() { info!("m' + ch + '"); warn!("next"); }\n',
                  'fn f() { info!(a = 1;' + ch + '"m"); }\n', '// c' + ch + '\nfn f() { info!("m"); }' + ch]
        for i, text in enumerate(shapes):
            for style in (False, True):
                yield gen.cfg_index(0, style), text, ("odd-char", name, i)


STMT_KINDS = {
    "missing": dict(kvs=[], msg="plain {}", trailing=", 1"),
    "missing+kv": dict(kvs=["a = 1", "b"], msg="with kv"),
    "missing+target": dict(target='"t"', kvs=[], msg="with target"),
    "msg-referenced": dict(kvs=[], msg="[ref: 41] has a message reference"),
    "kv-referenced": dict(kvs=["ref = 42", "a = 1"], msg="has a ref key"),
    "kv-unusable": dict(kvs=["ref = code"], msg="ref key with a variable"),
    "kv-unusable-late": dict(kvs=["a = 1", "ref = x.id"], msg="ref key last"),
}
STMT_DIRECTIVES = ["", "// breadlog:ignore\n", "// breadlog:no-kvp\n"]


def statement_kind_tuples(maxlen=3):
    """Files holding 2..maxlen statements of different kinds (missing / referenced in the message / referenced by key-value /
    unusable `ref` key), each optionally under a directive: what one statement needs must not leak into its neighbours."""
    import itertools
    names = sorted(STMT_KINDS)
    for L in range(2, maxlen + 1):
        for combo in itertools.product(names, repeat=L):
            for dirs in itertools.product(range(len(STMT_DIRECTIVES)), repeat=L):
                if sum(1 for d in dirs if d) > 1:
                    continue
                for style in (False, True):
                    f = gen.File(style)
                    f.raw("fn f() {\n")
                    for k, d in zip(combo, dirs):
                        f.raw(STMT_DIRECTIVES[d])
                        st = gen.Stmt(**STMT_KINDS[k])
                        f.stmt(st, ignored=(d == 1), no_kvp=(d == 2))
                        f.raw(";\n")
                    f.raw("}\n")
                    code, exp = f.build()
                    # in unstructured mode (or under no-kvp) the key-value kinds are simply statements without a message reference
                    yield gen.cfg_index(0, style), code, ("stmt-kinds", (combo, dirs), exp)


def cross_feature_product():
    """directive x target x key-values x eol x layout x second statement on the same line x position in the file x style: the full
    product of the features that individually have their own check, so that their interactions are covered too."""
    import itertools
    dirs = ["", "// breadlog:ignore\n", "/* breadlog:no-kvp */\n"]
    targets = [None, '"t"']
    kvss = [[], ["a = 1"], ["ref = 5"], ["ref = x"]]
    for d, tg, kvs, crlf, multi, second, pos, style in itertools.product(range(3), targets, kvss, (False, True), (False, True),
                                                                         (False, True), ("first", "middle", "last"), (False, True)):
        f = gen.File(style)
        if pos != "first":
            f.raw("fn before() { let _x = 1; }\n")
        f.raw(dirs[d])
        fill = {"*": "\n        "} if multi else {}
        st = gen.Stmt(target=tg, kvs=kvs, msg="m {}", trailing=", 1", fill=fill)
        f.stmt(st, ignored=(d == 1), no_kvp=(d == 2))
        f.raw(";")
        if second:
            f.raw(" ")
            st2 = gen.Stmt(macro=("log", "warn"), msg="second on the same line")
            # a statement that starts on the same line as the first shares its directive
            f.stmt(st2, ignored=(d == 1 and not multi), no_kvp=(d == 2 and not multi))
            f.raw(";")
        if pos == "middle":
            f.raw("\nfn after() {}\n")
        elif pos == "first":
            f.raw("\n")
        code, exp = f.build(crlf=crlf)
        yield gen.cfg_index(0, style), code, ("cross", (d, tg, tuple(kvs), crlf, multi, second, pos), exp)


def far_positions():
    """Statements whose column, or whose line number, sits at 255/256/257 and 65535/65536/65537 (and one far beyond)."""
    for n in (255, 256, 257, 65535, 65536, 65537, 200000):
        for kind in ("column", "line"):
            if kind == "column":
                text = "/*" + "c" * (n - 5) + "*/ " + 'info!("m"); warn!(a = 1; "second on the same long line");\n'
            else:
                text = "\n" * (n - 1) + 'info!("m");\nwarn!("next line");\n'
            for style in (False, True):
                yield gen.cfg_index(0, style), text, ("far-position", kind, n)


def gap_sweep():
    """Two or three unreferenced statements in one file separated by gaps around buffer-sized boundaries (a chunk between two insertion
    points that is exactly / just under / just over 4 KiB, 8 KiB, 64 KiB, 128 KiB, 1 MiB)."""
    line = "// " + "g" * 60 + "\n"
    for gap in (4096, 8192, 65536, 131072, 1048576):
        for d in (-1, 0, 1):
            g = gap + d
            filler = line * (g // len(line))
            filler += "/" * 0
            pad = g - len(filler)
            filler += "//" + "p" * max(0, pad - 3) + "\n" if pad >= 3 else ""
            for three in (False, True):
                text = 'fn a() { info!("first"); }\n' + filler + 'fn b() { warn!(k = 1; "second"); }\n'
                if three:
                    text += filler[: len(filler) // 2] + 'fn c() { error!("third"); }\n'
                for style in (False, True):
                    yield gen.cfg_index(0, style), text, ("gap", gap, d, three)
