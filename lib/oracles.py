"""Oracles shared by the E1-based checks (C07, C08, C18, C02)."""
import os
import signal

import cli


def op_at(x, k):
    for o in x.trace:
        if o.k == k and o.op != "signal":
            return o
    return None


def plan_signature(x, coarse=True):
    """'<action>@<op>(<role of path>)' per deviation: the call-site identity of the injected fault.
    coarse: the set of distinct deviations (errno dropped), so that one defect gets one signature."""
    parts = []
    for k, a in x.plan:
        if k is None:
            parts.append(":".join(a.split(":")[:2]))
            continue
        o = op_at(x, k)
        kind = a.split(":")[0]
        arg = a.split(":")[1] if ":" in a else ""
        role = ""
        name = "?"
        if o is not None:
            name = o.op
            p = o.path
            if "TMP#" in p or p.startswith("$R1") or "breadlog-" in p:
                role = "tmp"
            elif p.endswith("Breadlog.lock"):
                role = "lock"
            elif p.endswith("Breadlog.yaml"):
                role = "config"
            elif p.startswith("$R0/src"):
                role = "src" if "/" in p[len("$R0/src"):] else "srcdir"
            elif o.cls == "log":
                role = "stdout"
        parts.append("%s%s@%s(%s)" % (kind, (":" + arg) if arg and kind == "fail" and not coarse else "", name, role))
    if coarse:
        parts = sorted(set(parts))
    return "+".join(parts) if parts else "fault-free"


def insertion_offsets(orig, new):
    s = cli.token_strip(orig, new)
    if s is None:
        return None
    return [o for o, _ in s]


def classify_source_file(orig, got, base_final):
    """Returns None if `got` is the original or a complete update, else a short class name."""
    if got is None:
        return "vanished"
    if got == orig:
        return None
    want = insertion_offsets(orig, base_final)
    have = insertion_offsets(orig, got)
    if have is not None and want is not None and have == want:
        return None
    if have is not None and want is not None:
        return "incomplete-insertions"
    # is it a truncated complete update?  (prefix relation modulo IDs: compare after stripping tokens)
    import re
    stripped = cli._TOKEN_RE.sub(b"", got)
    ostripped = cli._TOKEN_RE.sub(b"", orig)
    if ostripped.startswith(stripped) and len(stripped) < len(ostripped):
        return "truncated"
    return "corrupted"


def check_atomicity(sc, base, x):
    """C07's rule. Yields (class, file) for every offending file."""
    orig = sc.source_bytes()
    for f, o in orig.items():
        c = classify_source_file(o, x.src.get(f), base.src.get(f, o))
        if c:
            yield c, f
    for f in x.src:
        if f not in orig:
            # a new file that a later run would take for a source file is always an offence; a leftover that is out of scope by its name
            # (a scratch copy beside the file it was to replace) is one only if the process was still there to remove it - the properties
            # say nothing about what a *killed* run leaves behind except that it is never a half-written source file (DESIGN section 7)
            base_name = os.path.basename(f)
            in_scope = "." in base_name and base_name.rsplit(".", 1)[0] != "" and base_name.rsplit(".", 1)[1] in getattr(sc, "extensions", ["rs"])
            if in_scope or x.signal != signal.SIGKILL:
                yield "new-source-file", f


def check_followup(x):
    """Differential oracle for the recovery run (see fsx._followup). Yields (class, detail)."""
    fo = x.follow
    if not fo:
        return
    if fo["p_panicked"]:
        yield "recovery-run-crashed", ""
    if fo["p_exit"] != fo["q_exit"]:
        yield "recovery-run-exit-differs-from-clean-world", "polluted %r clean %r" % (fo["p_exit"], fo["q_exit"])
    for f, o in fo["before"].items():
        want = insertion_offsets(o, fo["q_src"].get(f, b""))
        have = insertion_offsets(o, fo["p_src"].get(f, b""))
        if want is None:
            continue        # the clean world itself did not produce a token-only result: not this oracle's business
        if have is None:
            yield "recovery-run-corrupts-source", f
        elif have != want and fo["p_exit"] == 0 and fo["q_exit"] == 0:
            yield "recovery-run-inserts-differently-from-clean-world", f


def followup_lock_problem(x, max_id_fn):
    """The lock after the recovery run must cover every ID in the tree whenever the clean world's lock does."""
    fo = x.follow
    if not fo or fo["p_exit"] != 0 or fo["q_exit"] != 0:
        return None
    if isinstance(fo["q_lock"], int) and fo["q_lock"] > max_id_fn(fo["q_src"]):
        if not isinstance(fo["p_lock"], int):
            return "lock-not-written-by-recovery-run"
        if fo["p_lock"] <= max_id_fn(fo["p_src"]):
            return "lock-does-not-cover-ids-after-recovery-run"
    return None
