"""C11 — comments, unconfigured macros and non-literal invocations are never touched (E3 + E4)."""
import itertools

import gen
import vh
import clibind
from c10 import chunks

LEVEL = "exploration"

# macro sets used here: 0 (default) and 1 (two-segment module, name `event`)
SETS = [0, 1, 3, 4, 5, 6]


def items_for(ms):
    """(text, is_real, Stmt or None). S = text of a real statement for this macro set."""
    mod, name = gen.MACRO_SETS[ms][0]
    real1 = gen.Stmt(macro=(mod, name), msg="one")
    real2 = gen.Stmt(macro=(mod, name), qualified=True, kvs=["a = 1"], msg="two {}", trailing=", 2")
    S = real1.render()[0] + ";"
    decoys = [
        "// " + S + "\n", "/* " + S + " */", "/*\n" + S + "\n*/", "/// " + S + "\n", "//! " + S + "\n", "/** " + S + " */",
        "/* " + S + " **/", "/**** " + S + " ****/", "/* a /* b **/ " + S + " */",
        "/* " + S + " // see http://x.y/z */", "// progress:\r " + S + "\n", "// " + S + "\r\n", "/* // */", "// /* " + S + "\n", "/* /* inner */ " + S + " */",
        'debug!("x");', 'println!("x");',
        name + 'x!("x");', "x" + name + '!("x");', "my_" + name + '!("x");', name + '_!("x");',
        "foo::" + name + '!("x");', mod + "::sub::" + name + '!("x");', "x" + mod + "::" + name + '!("x");',
        "a::" + name + '!("x");', "crate::a::" + name + '!("x");',
        name + "!();", name + "!(x);", name + "!(MSG);", name + '!(format!("x"));', name + "![1];",
        # a configured name without a literal message but with a (non-literal) target / key-values, and ordinary code after it in which a
        # comma is directly followed by a string literal
        name + "!(target: AUDIT);", name + "!(target: AUDIT, MSG);", name + "!(k = 1; MSG);", 'out.insert(0, "header");', 'f(a, "b", c);',
        'let s = "' + S.replace('"', '\\"') + '";',
        # macro-like text in other literals: a string that ends inside the invocation, raw strings (one containing `"#`), a glob and a URL
        # followed by a commented-out statement
        'let a = "see ' + name + '!("; let b = "x";', 'let r = r#"' + S + '"#;', 'let r = r##"a "# ' + S + ' "##;',
        'let g = "src/*"; let h = "' + name + '!(\\"x\\") */";', 'let u = "http://h"; /* ' + S + ' */',
        # a double quote as a character literal in code, the next double quote inside a comment
        "let c = '\"';\n// '\"' => " + S + "\n", "let c = b'\"'; /* \" */ // " + S + "\n",
    ]
    # a module path of several segments: every proper suffix and every proper prefix of it is a different path
    segs = mod.split("::")
    for k in range(1, len(segs)):
        decoys.append("::".join(segs[k:]) + "::" + name + '!("x");')
        decoys.append("::".join(segs[:k]) + "::" + name + '!("x");')
    if len(segs) > 1:
        decoys.append("::".join(reversed(segs)) + "::" + name + '!("x");')
    # modules and names that are configured, but not as a pair
    for m_, _n in gen.MACRO_SETS[ms]:
        for _m, n_ in gen.MACRO_SETS[ms]:
            if (m_, n_) not in gen.MACRO_SETS[ms]:
                decoys.append(m_ + "::" + n_ + '!("x");')
    out = [(d, None) for d in decoys]
    out.append((None, real1))
    out.append((None, real2))
    return out, "// " + S     # the last one: line comment at end of file without newline


JOINERS = ["\n", " ", ""]


def build(spec):
    for ms, style, idxs, joiner, tail in spec:
        items, eof_comment = items_for(ms)
        f = gen.File(style)
        for k, i in enumerate(idxs):
            text, st = items[i]
            if k > 0:
                f.raw(JOINERS[joiner])
            if st is not None:
                f.stmt(st)
                f.raw(";")
            else:
                f.raw(text)
        if tail == 1:
            f.raw("\n")
        elif tail == 2:
            f.raw("\n" + eof_comment)          # comment on the last line, no trailing newline
        elif tail == 3:
            f.raw("\r\n" + eof_comment + "\r")   # CRLF file cut after the carriage return of its last line, which is a comment
        code, exp = f.build()
        yield gen.cfg_index(ms, style), code, exp, (ms, style, idxs, joiner, tail)


def space(maxlen):
    for ms in SETS:
        n = len(items_for(ms)[0])
        for style in (False, True):
            for L in range(1, (maxlen if ms == 0 else maxlen - 1) + 1):
                for idxs in itertools.product(range(n), repeat=L):
                    for j in range(len(JOINERS) if L < 4 else 1):
                        if L == 1 and j > 0:
                            continue
                        # a line comment swallows what follows on its line: with joiner " " or "" the next item would be
                        # inside the comment; the model would have to know that, so those joins are only made after
                        # items that end their own line or are not line comments
                        if j > 0 and any(items_for(ms)[0][i][0] is not None and items_for(ms)[0][i][0].startswith("//") and not items_for(ms)[0][i][0].endswith("\n") for i in idxs[:-1]):
                            continue
                        for tail in ((0, 1, 2, 3) if L < 4 else (0, 3)):
                            yield (ms, style, idxs, j, tail)


def classify(f):
    ms, style, idxs, j, tail = f["label"]
    items, _ = items_for(ms)
    kinds = []
    for i in idxs:
        t = items[i][0]
        if t is None:
            kinds.append("real")
        elif t.startswith("//") or t.startswith("/*"):
            kinds.append("comment")
        elif t.startswith("let s"):
            kinds.append("string")
        else:
            kinds.append("macro-decoy")
    tag = "+".join(sorted(set(kinds)))
    if tail in (2, 3) and f["class"] == "count" and "got %d" % (sum(1 for k in kinds if k == "real") + 1) in f["detail"]:
        tag = "eof-line-comment-parsed"
    return "%s:%s:%s" % ("structured" if style else "unstructured", f["class"], tag)


def run(tier, v):
    import corpuscheck
    corpuscheck.check(v, "C11", tier)
    pool = vh.Pool()
    maxlen = 4 if tier == "thorough" else 3
    # pre-filter cost: items_for is cheap but called often; memoise
    global items_for
    import functools
    items_for = functools.lru_cache(None)(items_for)
    agg = pool.run("c11", "build", chunks(space(maxlen), 3000))
    pool.close()
    v.count(agg["n"])
    v.coverage["distinct_nontrivial"] += agg["distinct"]
    v.subspace("all sequences of 1..%d items (other macro sets than the default: one shorter; length 4: newline joiner, two tails) from %d decoys + 2 real statements x "
               "joiner {newline, blank, nothing} x tail {none, newline, line comment at EOF without newline, the same in a CRLF file cut after the CR} x 6 macro sets (default, "
               "two-segment module, non-ASCII, three modules with cross-pair decoys, three-segment module, names starting with `_`) x style" % (maxlen, len(items_for(0)[0]) - 2), agg["n"], exhaustive=True,
               sequences_containing_real_statements=agg["nonvacuous"])
    for s in agg["samples"]:
        v.sample({"file": s[0], "expected_entries": s[1]})
    for f in agg["fails"]:
        v.violation(classify(f), {"file": f["code"], "class": f["class"], "detail": f["detail"], "expected": f["expected"], "got": f["got"]},
                    replay_files={"case.rs": f["code"]})
    # CLI pass: no decoy byte changes, no decoy line reported (subset: all sequences of length <= 2 (quick: 1), joiner newline)
    tuples = [t for t in space(2 if tier == "thorough" else 1) if t[3] == 0]
    nb, nf = clibind.bind(tuples, lambda t: next(build([t])), v)
    v.subspace("CLI pass over the length<=%d sequences: --check report and edit diff equal the in-process entries" % (2 if tier == "thorough" else 1), nb)
    v.coverage["rule"] = ("one evaluation = one generated file (sequence of decoys and real statements) parsed by the real finder; the model knows "
                          "which items are real; distinct = distinct file texts")
