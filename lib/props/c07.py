"""C07 — source files are replaced atomically at every crash and fault point (engine E1)."""
import signal

import fsx
import oracles
import scenarios

LEVEL = "fault_enumeration"


def run(tier, v):
    ex = fsx.Explorer()
    names = ["S1", "S2", "S3", "S4", "S5", "S6", "S7", "S10", "S5b", "S5c", "S5d", "S11"]
    bound = 2 if tier == "thorough" else 1
    menu = {"kill", "fail", "short", "logfail"}
    total_exec = 0

    def oracle(sc, base, x):
        v.count()
        bad = list(oracles.check_atomicity(sc, base, x))
        # other project files and the outside directory must be untouched
        init_other = {"Breadlog.yaml": sc.config.encode()}
        init_other.update({k: (c.encode() if isinstance(c, str) else c) for k, c in sc.raw_files.items()})
        for f, c in x.proj_other.items():
            if f not in init_other:
                # new file in the project: tolerated only after a kill and only if out of scope
                failed_unlink = any(o.op == "unlink" and o.res < 0 and o.path.endswith("/" + f) for o in x.trace)
                panicked_on_stdout = x.exit == 101 and any(o.cls == "log" and o.res < 0 for o in x.trace)
                if (x.signal == signal.SIGKILL or panicked_on_stdout) and not f.endswith(".rs"):
                    v.notes.append("leftover out-of-scope file after kill: %s" % f) if len(v.notes) < 20 else None
                elif failed_unlink:
                    # the run did try to remove it and that very unlink was made to fail: nothing an implementation could do
                    pass
                else:
                    bad.append(("new-project-file", f))
            elif c != init_other[f]:
                bad.append(("other-file-changed", f))
        for f in init_other:
            if f not in x.proj_other:
                bad.append(("other-file-removed", f))
        if x.outside != base.outside:
            bad.append(("outside-changed", "outside/"))
        if x.timed_out:
            bad.append(("hang", ""))
        v.distinct((sc.name, x.terminated(), tuple(sorted((k, hash(c)) for k, c in x.src.items()))))
        for cls, f in bad:
            sig = "%s:%s" % (cls, oracles.plan_signature(x))
            v.violation(sig, {"scenario": sc.name, "plan": fsx.plan_str(x.plan), "file": f, "class": cls,
                              "terminated": x.terminated(), "content": x.src.get(f, b"").decode("utf-8", "replace")[:400]},
                        replay_files=_replay_files(sc, x), replay_cmd=_replay_cmd(sc, x))

    for n in names:
        sc = scenarios.ALL[n]()
        this_bound = bound if n not in ("S5b", "S10", "S5c", "S5d", "S11") else 1
        # the 64 KiB file: quick explores kills only (every operation), thorough the whole menu
        this_menu = {"kill"} if (n == "S5b" and tier != "thorough") else menu
        base, nx, capped = ex.explore(sc, this_menu, this_bound, oracle)
        total_exec += nx
        edited = sum(1 for f, o in sc.source_bytes().items() if base.src.get(f) != o)
        v.subspace("%s: every op x {kill-before,kill-after,fail(errno menu),short,EPIPE on stdout}, deviation bound %d" % (sc.name, this_bound),
                   nx, exhaustive=not capped, ops_in_fault_free_run=len(base.trace), files_edited_fault_free=edited)
        if len(v.coverage["samples"]) < 6:
            v.sample({"scenario": sc.name, "fault_free_trace": ["%d:%s %s" % (o.k, o.op, o.path) for o in base.trace if o.cls != "log"][:60]})
    # recovery: whatever a killed / failed run leaves behind (scratch files, lock scratch), a later fault-free run - after the developer
    # shortened the files - must rewrite each file exactly as it would in a clean world
    def oracle_follow(sc, base, x):
        v.count()
        v.distinct((sc.name, "follow", x.terminated(), tuple(x.follow["leftovers"]["tmp"]) if x.follow else ()))
        for cls, what in oracles.check_followup(x):
            v.violation(cls, {"scenario": sc.name, "first_run_plan": fsx.plan_str(x.plan), "what": what,
                                                                           "leftovers": x.follow["leftovers"], "then": "developer shortens every file, fault-free edit run"},
                        replay_files=_replay_files(sc, x), replay_cmd=_replay_cmd(sc, x))
    for n in ["S2", "S5"] + (["S3", "S6"] if tier == "thorough" else []):
        sc = scenarios.ALL[n]()
        sc.name += "+recovery"
        base, nx, capped = ex.explore(sc, {"kill", "fail"}, 1, oracle_follow, opt={"followup": "shorten"},
                                      op_filter=lambda o, d, x: o.cls == "w")
        v.subspace("%s: kill / fault at every mutating operation, then developer edit (files shortened) and a fault-free edit run in the same "
                   "directories, compared with the same run in a clean world" % sc.name, nx, exhaustive=not capped)
    # the temporary directory on another file system is an environment, not a fault: every rename into the tree fails with EXDEV
    # in every execution, and the single deviations are explored on top of that
    import errno
    for n in (["S1", "S2", "S5"] if tier == "thorough" else ["S1", "S2"]):
        sc = scenarios.ALL[n]()
        sc.name += "+tmpdir-on-other-fs"
        base, nx, capped = ex.explore(sc, menu, bound, oracle, base_plan=[(None, "sticky:rename:%d" % errno.EXDEV)])
        v.subspace("%s: every rename fails with EXDEV (temp dir on another file system) + every op x {kill, fail, short}, bound %d" % (sc.name, bound),
                   nx, exhaustive=not capped, ops_in_fault_free_run=len(base.trace))
    ex.close()
    v.coverage["rule"] = ("one evaluation = one execution of the real release binary on a fresh copy of a scenario tree under the "
                          "interposer with a plan of <= bound deviations; distinct = distinct (scenario, termination, source-tree bytes)")
    v.coverage["states"] = len(ex.end_states)
    v.coverage["transitions"] = ex.stats["ops_executed"]
    v.coverage["deviation_bound_completed"] = bound
    v.coverage["determinism_reruns"] = ex.stats["determinism_reruns"]
    v.assumptions += ["crash = process death at an interposed libc call boundary with the page cache intact",
                      "interposition covers every mutating libc entry point the binary imports (strace self-test: ./check SELFTEST)"]


def _replay_files(sc, x):
    files = {"proj/Breadlog.yaml": sc.config}
    for k, c in sc.files.items():
        files["proj/src/" + k] = c
    if sc.lock is not None:
        files["proj/Breadlog.lock"] = __import__("cli").lock_yaml(sc.lock) if isinstance(sc.lock, int) else sc.lock
    return files


def _replay_cmd(sc, x):
    return ("W=$(mktemp -d /dev/shm/replay.XXXXXX); cp -r proj $W/; mkdir $W/tmp $W/cwd; cd $W/cwd\n"
            "TMPDIR=$W/tmp FSX_LOG=$W/fsx.log FSX_ROOTS=$W/proj:$W/tmp FSX_PLAN='%s' LD_PRELOAD=/verif/.build/libfsx.so "
            "/verif/.build/repo/release/breadlog -c $W/proj/Breadlog.yaml %s; echo \"exit=$?\"; "
            "echo '--- source files afterwards'; head -c 2000 $W/proj/src/*; echo; echo \"(work dir: $W)\"" % (fsx.plan_str(x.plan), "--check" if sc.check else ""))


def replay(path, v):
    import json, os, subprocess
    case = json.load(open(os.path.join(path, "case.json")))
    print(json.dumps(case, indent=1))
    return subprocess.call(["sh", os.path.join(path, "replay.sh")])
