"""C16 — configuration switches and defaults mean what the guide says (E4 config enumerator + reference model)."""
import itertools
import multiprocessing
import os
import re
import shutil

import cli
from vcommon import NCPU, scratch_dir

LEVEL = "exploration"

CACHE = {"omitted": None, "true": True, "false": False}
STRUCT = {"omitted": None, "true": True, "false": False}
EXTS = {"omitted": None, "[rs]": ["rs"], "[txt]": ["txt"]}
LOCKS = {"absent": None, "valid=max+1": 8, "valid-ahead": 100, "corrupt": "next_reference_id: [oops\n", "empty": "",
         # a valid lock that is long: a comment header of 3 KiB in front of the entry; and one whose number straddles byte 1024
         "valid-ahead-long-header": "".join("# %s\n" % ("kept by the team, do not edit " * 3) for _ in range(34)) + "next_reference_id: 100\n",
         "valid-ahead-number-at-1024": "#" + "x" * (1024 - 1 - 1 - len("next_reference_id: 1")) + "\nnext_reference_id: 150\n",
         "git-conflict": "<<<<<<< HEAD\nnext_reference_id: 16\n=======\nnext_reference_id: 18\n>>>>>>> feature\n"}
TREES = {
    "missing": {"src/a.rs": 'fn a() {\n    info!("[ref: 7] have");\n    info!("need");\n}\n', "src/b.txt": 'fn b() { info!("need in txt"); }\n',
                "src/c.md": "info!(\"not code\")\n"},
    "nothing-missing": {"src/a.rs": 'fn a() { info!("[ref: 7] have"); }\n', "src/b.txt": 'fn b() { info!("[ref: 3] have"); }\n', "src/c.md": "x\n"},
    "no-in-scope-file": {"src/c.md": "info!(\"not code\")\n", "src/d.c": "x\n"},
    # the only *.rs names below source_dir are symbolic links to files outside it: still nothing in scope
    "only-symlinks-in-scope": {"src/l.rs": ("symlink", "../outside/o.rs"), "src/sub/m.rs": ("symlink", "../../outside/o.rs"),
                               "outside/o.rs": 'fn o() { info!("need outside"); }\n', "src/c.md": "x\n"},
}
TREES_STRUCT = {k: {p: (c.replace('"[ref: 7] have"', 'ref = 7; "have"').replace('"[ref: 3] have"', 'ref = 3; "have"') if isinstance(c, str) else c) for p, c in t.items()}
                for k, t in TREES.items()}
INVALID = {
    "config-missing": None,
    "invalid-yaml": "---\n: this is invalid YAML\n  -",
    "source_dir-key-missing": "rust:\n  log_macros:\n    - module: log\n      name: info\n",
    "source_dir-nonexistent": "source_dir: ./nowhere\nrust:\n  log_macros:\n    - module: log\n      name: info\n",
    "source_dir-is-a-file": "source_dir: ./src/a.rs\nrust:\n  log_macros:\n    - module: log\n      name: info\n",
}
_ID = re.compile(rb"\[ref: ([0-9]+)\]|ref = ([0-9]+)(?:u32)?[;,]")


def ids_in(b):
    return [int(a or c) for a, c in _ID.findall(b)]


def _job(args):
    kind, spec, work = args
    proj = os.path.join(work, "proj")
    tmp = os.path.join(work, "tmp")
    os.makedirs(tmp)
    out = {"kind": kind, "spec": spec}
    if kind == "product":
        cn, sn, en, ln, tn, check = spec[:6]
        stale = len(spec) > 6 and spec[6]
        structured = STRUCT[sn]
        tree = dict((TREES_STRUCT if structured else TREES)[tn])
        tree["Breadlog.yaml"] = cli.config_yaml("./src", structured=structured, use_cache=CACHE[cn], extensions=EXTS[en],
                                                macros=[("log", "info")])
        lk = LOCKS[ln]
        if lk is not None:
            tree["Breadlog.lock"] = cli.lock_yaml(lk) if isinstance(lk, int) else lk
        if stale:
            tree["Breadlog.lock.tmp"] = cli.lock_yaml(2)      # left by an earlier run that was killed between write and rename
    else:
        name, check = spec
        tree = dict(TREES["missing"])
        tree.update({"Cargo.toml": "[package]\nname = \"demo\"\nversion = \"0.1.0\"\n", ".gitignore": "/target\n"})
        if INVALID[name] is not None:
            tree["Breadlog.yaml"] = INVALID[name]
        tree["Breadlog.lock"] = cli.lock_yaml(8)
    links = {p: c[1] for p, c in tree.items() if isinstance(c, tuple)}
    tree = {p: c for p, c in tree.items() if not isinstance(c, tuple)}
    cli.write_tree(proj, tree)
    for p, target in links.items():
        os.makedirs(os.path.dirname(os.path.join(proj, p)), exist_ok=True)
        os.symlink(target, os.path.join(proj, p))
        tree[p] = open(os.path.join(proj, p), "rb").read()      # what is seen through the link
    out["symlinks"] = sorted(links)
    before = cli.snapshot(work, with_meta=False)
    r = cli.run_breadlog(os.path.join(proj, "Breadlog.yaml"), check=check, cwd=work, tmpdir=tmp, timeout=30,
                         shim={"log": os.path.join(work, "..", os.path.basename(work) + ".fsxlog"), "roots": [proj, tmp]})
    after_files = cli.read_tree(proj)
    for p in links:
        try:
            after_files[p] = open(os.path.join(proj, p), "rb").read()      # through the link, or the regular file that replaced it
        except OSError:
            after_files.pop(p, None)
        if not os.path.islink(os.path.join(proj, p)):
            after_files[p] = b"<no longer a symbolic link> " + after_files.get(p, b"")
    out["exit"], out["signal"], out["panicked"] = r.exit, r.signal, r.panicked
    out["before"] = {k: (v.encode() if isinstance(v, str) else v) for k, v in tree.items()}
    out["after"] = after_files
    out["snap_equal"] = cli.snapshot(work, with_meta=False) == before
    out["lock_ops"] = [o.op for o in r.trace if o.path.endswith("Breadlog.lock")]
    out["stdout"] = r.stdout[-1500:]
    # follow-up history for "later runs start from it": delete the statement with the highest ID, add a new one, edit again
    out["follow"] = None
    if kind == "product" and not check and r.exit == 0:
        scope_ext = (EXTS[en] or ["rs"])[0]
        target = "src/a.rs" if scope_ext == "rs" else "src/b.txt"
        if target in after_files:
            cur = after_files[target]
            all_ids = [i for f, b in after_files.items() if f.endswith("." + scope_ext) for i in ids_in(b)]
            if all_ids:
                mx = max(all_ids)
                lines = [l for l in cur.split(b"\n") if (b"[ref: %d]" % mx) not in l and (b"ref = %d;" % mx) not in l and (b"ref = %d," % mx) not in l]
                new = b"\n".join(lines) + b'\nfn added() { info!("added later"); }\n'
                with open(os.path.join(proj, target), "wb") as f:
                    f.write(new)
                lock_before = cli.read_lock(os.path.join(proj, "Breadlog.lock"))
                r2 = cli.run_breadlog(os.path.join(proj, "Breadlog.yaml"), check=False, cwd=work, tmpdir=tmp, timeout=30)
                after2 = cli.read_tree(proj)
                s = cli.token_strip(new, after2.get(target, b""))
                out["follow"] = {"deleted_max": mx, "lock_before": lock_before, "exit": r2.exit,
                                 "new_ids": [cli.token_id(t) for _, t in s] if s is not None else None,
                                 "lock_after": cli.read_lock(os.path.join(proj, "Breadlog.lock"))}
    shutil.rmtree(work, ignore_errors=True)
    try:
        os.unlink(os.path.join(work, "..", os.path.basename(work) + ".fsxlog"))
    except OSError:
        pass
    return out


def model_and_judge(o, v):
    """The reference model of the guide, applied to one run of the product."""
    cn, sn, en, ln, tn, check = o["spec"][:6]
    use_cache = CACHE[cn] is not False          # default true
    structured = bool(STRUCT[sn])               # default false
    exts = EXTS[en] or ["rs"]                   # default [rs]
    before, after = o["before"], o["after"]
    scope = [f for f in before if f.startswith("src/") and f.rsplit(".", 1)[-1] in exts and "." in f and f not in o.get("symlinks", ())]
    bad = []
    if o["panicked"] or o["signal"] is not None:
        bad.append("abnormal-termination")
    changed = [f for f in set(before) | set(after) if before.get(f) != after.get(f) and f != "Breadlog.lock.tmp"]
    lock_before = before.get("Breadlog.lock")
    lock_after = after.get("Breadlog.lock")
    if not scope:
        if o["exit"] == 0:
            bad.append("empty-scope-exit-0")
        if changed:
            bad.append("empty-scope-changed-files")
        return bad
    existing = [i for f in scope for i in ids_in(before[f])]
    missing_files = [f for f in scope if b'"need' in before[f]]
    if check:
        if (o["exit"] != 0) != bool(missing_files):
            bad.append("check-exit-status")
        if changed:
            bad.append("check-changed-files")
        return bad
    # ---- edit mode
    if o["exit"] != 0:
        bad.append("edit-exit-nonzero-on-valid-setup")
    # scope
    for f in changed:
        if f != "Breadlog.lock" and f not in scope:
            bad.append("out-of-scope-file-changed")
    new_ids = []
    for f in scope:
        s = cli.token_strip(before[f], after.get(f, b""))
        if s is None:
            bad.append("not-token-only")
            continue
        for off, tok in s:
            new_ids.append(cli.token_id(tok))
            if (cli.token_style(tok) == "kv") != structured:
                bad.append("wrong-reference-style")
    if missing_files and len(new_ids) != len(missing_files):
        bad.append("missing-reference-not-inserted")
    # start id
    lock_val = cli.read_lock.__wrapped__(lock_before) if hasattr(cli.read_lock, "__wrapped__") else parse_lock(lock_before)
    if use_cache and isinstance(lock_val, int):
        start = lock_val
    else:
        start = (max(existing) + 1) if existing else 1
    if any(i < start for i in new_ids):
        bad.append("new-id-below-expected-start(%s)" % ("lock" if use_cache and isinstance(lock_val, int) else "scan"))
    if set(new_ids) & set(existing) or len(set(new_ids)) != len(new_ids):
        bad.append("new-id-collides")
    # lock afterwards
    if not use_cache:
        if lock_after != lock_before:
            bad.append("use_cache-false-but-lock-changed")
        if o["lock_ops"]:
            bad.append("use_cache-false-but-lock-accessed")
    elif new_ids:
        la = parse_lock(lock_after)
        if not isinstance(la, int):
            bad.append("lock-not-written-by-inserting-run")
        elif la <= max(new_ids + existing):
            bad.append("lock-not-above-every-id")
        fo = o["follow"]
        if fo and fo["new_ids"] is not None and isinstance(la, int):
            if any(i < la for i in fo["new_ids"]) or fo["deleted_max"] in fo["new_ids"]:
                bad.append("later-run-does-not-start-from-lock")
    return bad


CANON = "---\nsource_dir: ./src\nuse_cache: true\nrust:\n  structured: true\n  log_macros:\n    - module: log\n      name: info\n  extensions:\n    - rs\n    - txt\n"
# the same configuration written differently: must behave exactly like CANON
EQUIVALENT = {
    "key-order": "rust:\n  extensions:\n    - rs\n    - txt\n  log_macros:\n    - name: info\n      module: log\n  structured: true\nuse_cache: true\nsource_dir: ./src\n",
    "comments+blank-lines": "# project configuration\n---\n\nsource_dir: ./src   # sources\n\nuse_cache: true\nrust:\n  # style\n  structured: true\n  log_macros:\n    - module: log   # crate\n      name: info\n\n  extensions:\n    - rs\n    - txt\n# end\n",
    "flow-style": "{source_dir: ./src, use_cache: true, rust: {structured: true, log_macros: [{module: log, name: info}], extensions: [rs, txt]}}\n",
    "quoted-scalars": "source_dir: \"./src\"\nuse_cache: true\nrust:\n  structured: true\n  log_macros:\n    - module: 'log'\n      name: \"info\"\n  extensions:\n    - 'rs'\n    - \"txt\"\n",
    "anchor+alias": "source_dir: ./src\nuse_cache: true\nrust:\n  structured: true\n  log_macros:\n    - &m\n      module: log\n      name: info\n    - *m\n  extensions:\n    - rs\n    - txt\n",
    "document-end-marker": "---\nsource_dir: ./src\nuse_cache: true\nrust:\n  structured: true\n  log_macros:\n    - module: log\n      name: info\n  extensions:\n    - rs\n    - txt\n...\n",
    "crlf": CANON.replace("\n", "\r\n"),
    "deeper-indent": "source_dir: ./src\nuse_cache: true\nrust:\n      structured: true\n      log_macros:\n          - module: log\n            name: info\n      extensions:\n          - rs\n          - txt\n",
    "defaults-spelled-out-elsewhere": "source_dir: ./src\nrust:\n  structured: true\n  log_macros:\n    - module: log\n      name: info\n  extensions:\n    - rs\n    - txt\n",   # use_cache omitted = true
}
# spellings a YAML reader may accept or reject: either "invalid configuration" (non-zero exit, nothing changed) or exactly like CANON
EITHER = {
    "bool-yes": CANON.replace("use_cache: true", "use_cache: yes"),
    "bool-capitalised": CANON.replace("use_cache: true", "use_cache: True").replace("structured: true", "structured: TRUE"),
    "bool-as-string": CANON.replace("use_cache: true", "use_cache: \"true\""),
    "bool-as-number": CANON.replace("structured: true", "structured: 1"),
    "duplicate-key": CANON + "source_dir: ./src\n",
    "unknown-keys": CANON.replace("rust:\n", "owner: team\nrust:\n  color: blue\n"),
    "bom": "\ufeff" + CANON,
    "tab-indent": CANON.replace("  structured", "\tstructured"),
    "extensions-scalar": CANON.replace("  extensions:\n    - rs\n    - txt\n", "  extensions: rs\n"),
    "extensions-empty": CANON.replace("  extensions:\n    - rs\n    - txt\n", "  extensions: []\n"),
    "null-value": CANON.replace("use_cache: true", "use_cache: ~"),
}


def _variant_job(args):
    name, text, check, work = args
    proj = os.path.join(work, "proj")
    tmp = os.path.join(work, "tmp")
    os.makedirs(tmp)
    tree = dict(TREES_STRUCT["missing"])
    tree["Breadlog.yaml"] = text
    cli.write_tree(proj, tree)
    before = {k: (c.encode() if isinstance(c, str) else c) for k, c in tree.items()}
    r = cli.run_breadlog(os.path.join(proj, "Breadlog.yaml"), check=check, cwd=work, tmpdir=tmp, timeout=30)
    after = cli.read_tree(proj)
    changed = {}
    for f in sorted(set(before) | set(after)):
        if before.get(f) != after.get(f):
            s = cli.token_strip(before.get(f, b""), after.get(f, b"")) if f in before and f in after else None
            changed[f] = [(off, cli.token_style(t)) for off, t in s] if s is not None else "not-token-only"
    shutil.rmtree(work, ignore_errors=True)
    return name, check, r.exit, r.signal, r.panicked, changed


def parse_lock(b):
    """Model of 'the lock can be parsed': apart from comments, blank lines and a document marker the file is exactly one
    `next_reference_id: <u32>` mapping entry. Anything else (conflict markers, other text) is 'cannot be parsed'."""
    if b is None:
        return None
    lines = [l.strip() for l in b.decode("utf-8", "replace").replace("\r\n", "\n").split("\n")]
    lines = [l for l in lines if l and not l.startswith("#") and l != "---"]
    if len(lines) != 1:
        return "corrupt"
    m = re.match(r"^next_reference_id:\s*([0-9]+)$", lines[0])
    if not m or int(m.group(1)) > 0xFFFFFFFF:
        return "corrupt"
    return int(m.group(1))


def run(tier, v):
    base = scratch_dir("c16")
    jobs = []
    n = 0
    for spec in itertools.product(CACHE, STRUCT, EXTS, LOCKS, TREES, (True, False)):
        w = os.path.join(base, "j%d" % n)
        n += 1
        os.makedirs(w)
        jobs.append(("product", spec, w))
    # the same product for edit mode with a stale Breadlog.lock.tmp lying next to the configuration
    for spec in itertools.product(CACHE, ["omitted"], ["omitted"], LOCKS, ["missing"], (False,)):
        w = os.path.join(base, "j%d" % n)
        n += 1
        os.makedirs(w)
        jobs.append(("product", spec + (True,), w))
    for name in INVALID:
        for check in (True, False):
            w = os.path.join(base, "j%d" % n)
            n += 1
            os.makedirs(w)
            jobs.append(("invalid", (name, check), w))
    outcomes = set()
    with multiprocessing.Pool(NCPU) as pool:
        for o in pool.imap_unordered(_job, jobs):
            v.count()
            v.distinct(o["spec"])
            if o["kind"] == "product":
                bad = model_and_judge(o, v)
                outcomes.add((o["exit"], tuple(sorted(f for f in set(o["before"]) | set(o["after"]) if o["before"].get(f) != o["after"].get(f)))))
            else:
                bad = []
                if o["exit"] == 0:
                    bad.append("invalid-setup-exit-0")
                if not o["snap_equal"]:
                    bad.append("invalid-setup-changed-files")
                if o["panicked"] or o["signal"] is not None:
                    bad.append("abnormal-termination")
            for b in sorted(set(bad)):
                spec = o["spec"]
                sig = b if o["kind"] == "invalid" else "%s:lock=%s" % (b, spec[3])
                if o["kind"] == "invalid":
                    sig += ":" + spec[0]
                v.violation(sig, {"spec": spec, "exit": o["exit"], "follow": o.get("follow"), "stdout": o["stdout"].decode("utf-8", "replace")[-500:],
                                  "after": {k: c.decode("utf-8", "replace") for k, c in o["after"].items()}},
                            replay_files={"proj/" + k: c for k, c in o["before"].items()},
                            replay_cmd="W=$(mktemp -d); cp -r proj $W/; /verif/.build/repo/release/breadlog -c $W/proj/Breadlog.yaml %s; echo exit=$?; head -50 $W/proj/src/* $W/proj/Breadlog.lock" % ("--check" if (spec[-1] is True) else ""))
    v.subspace("full product use_cache{omitted,true,false} x structured{omitted,true,false} x extensions{omitted,[rs],[txt]} x lock{absent,max+1,ahead,"
               "corrupt,empty,git-conflict} x tree{missing,nothing missing,no in-scope file} x mode, each inserting edit run followed by (delete max statement, add one, edit)",
               len(jobs) - 2 * len(INVALID), exhaustive=True, distinct_outcomes=len(outcomes))
    # the configuration file written differently
    vjobs = []
    for name, text in [("CANON", CANON)] + sorted(EQUIVALENT.items()) + sorted(EITHER.items()):
        for check in (True, False):
            w = os.path.join(base, "v%d" % len(vjobs))
            os.makedirs(w)
            vjobs.append((name, text, check, w))
    with multiprocessing.Pool(NCPU) as pool:
        vres = {(n_, c_): (e_, sg_, p_, ch_) for n_, c_, e_, sg_, p_, ch_ in pool.map(_variant_job, vjobs)}
    for (name, check), (ex_, sg_, pan_, ch_) in sorted(vres.items()):
        v.count()
        v.distinct(("config-variant", name, check))
        canon = vres[("CANON", check)]
        same = (ex_, ch_) == (canon[0], canon[3])
        invalid = ex_ not in (0, None) and not ch_
        if pan_ or sg_ is not None:
            v.violation("config-variant:abnormal-termination:" + name, {"variant": name, "mode": "check" if check else "edit"})
        elif name in EQUIVALENT and not same:
            v.violation("config-variant-behaves-differently:" + name, {"variant": name, "mode": "check" if check else "edit", "exit": ex_, "changed": repr(ch_)[:300],
                                                                       "canonical_exit": canon[0], "canonical_changed": repr(canon[3])[:300], "text": (EQUIVALENT[name])})
        elif name in EITHER and not (same or invalid):
            v.violation("config-variant-neither-rejected-nor-equivalent:" + name, {"variant": name, "mode": "check" if check else "edit", "exit": ex_, "changed": repr(ch_)[:300],
                                                                                  "canonical_exit": canon[0], "canonical_changed": repr(canon[3])[:300], "text": EITHER[name]})
    v.subspace("the same configuration written %d equivalent ways (must behave like the canonical text) and %d debatable ways (rejected without "
               "changing anything, or like the canonical text) x mode" % (len(EQUIVALENT), len(EITHER)), len(vjobs))
    v.subspace("invalid set-ups {config missing, invalid YAML, source_dir key missing / nonexistent / a file} x mode", 2 * len(INVALID))
    # a configuration file that exists but cannot be opened or read is an invalid set-up like the others: non-zero exit, nothing changed (E1)
    import fsx
    import scenarios
    ex = fsx.Explorer()

    def cfg_oracle(sc, base, x):
        v.count()
        v.distinct(("config-read-fault", sc.name, fsx.plan_str(x.plan)))
        if x is base:
            return
        bad = []
        if x.timed_out or x.signal is not None or x.exit == 101:
            bad.append("abnormal-termination")
        if x.exit == 0:
            bad.append("exit-0")
        if x.src != sc.source_bytes() or x.lock != base_lock[sc.name] or x.tmp or x.cwd:
            bad.append("something-changed")
        for b_ in bad:
            v.violation("config-unreadable:%s" % b_, {"scenario": sc.name, "mode": "check" if sc.check else "edit", "plan": fsx.plan_str(x.plan), "exit": x.exit,
                                                      "lock": x.lock, "stdout": x.stdout.decode("utf-8", "replace")[-600:]})
    base_lock = {}
    nfault = 0
    for check in (False, True):
        for mk in (scenarios.s2, scenarios.s3):
            sc = mk(check=check)
            sc.name += "/check" if check else "/edit"
            base_lock[sc.name] = sc.lock if isinstance(sc.lock, int) else None
            _, nx, _ = ex.explore(sc, {"fail"}, 1, cfg_oracle, op_filter=lambda o, d, x: o.path == "$R0/Breadlog.yaml" and o.op in ("open", "read"))
            nfault += nx
    ex.close()
    v.subspace("configuration file present but unreadable: every open/read of Breadlog.yaml fails (EACCES, EIO, EMFILE) x {lock, no lock} x mode", nfault, exhaustive=True)
    v.sample({"use_cache": "omitted", "structured": "omitted", "extensions": "omitted", "lock": "corrupt", "tree": "missing", "mode": "edit",
              "model": "exit 0; a.rs gets one `[ref: N] ` with N >= 8; b.txt untouched; lock valid and > every ID; follow-up run starts from it"})
    v.coverage["rule"] = ("one evaluation = one run of the real binary (under the interposer, to see lock-file accesses) on one configuration; "
                          "oracle = a ~40-line reference model of the configuration guide")
