"""C04 — check mode never modifies anything (E1 trace monitor + metadata snapshots over the configuration product)."""
import itertools
import signal

import cli
import fsx
import oracles
import scenarios
from c07 import _replay_files, _replay_cmd, replay  # noqa: F401

LEVEL = "fault_enumeration"

MISSING = {"a.rs": scenarios.A_MISSING, "b.rs": scenarios.B_COMPLETE, "c.rs": scenarios.C_MIXED}
NONE_MISSING = {"a.rs": 'fn main() { info!("[ref: 1] one"); }\n', "b.rs": scenarios.B_COMPLETE}
UNREADABLE = {"a.rs": scenarios.ONE, "b.rs": b'fn b() { info!("\xff\xfe bad"); }\n', "c.rs": 'fn c() { warn!("three"); }\n'}
EMPTY_SCOPE = {"readme.txt": "nothing here\n"}
STRUCT = {"a.rs": 'fn main() {\n    info!("hello");\n    info!(a = 1; "kv {}", 1);\n    info!(ref = x; "unusable");\n}\n'}


def big_tree(n):
    return {"d%02d/f%04d.rs" % (i % 17, i): 'fn f%d() { info!("m %d"); warn!("[ref: %d] w"); }\n' % (i, i, i + 1) for i in range(n)}


MUTATING_OPS = {"creat", "openw", "write", "rename", "unlink", "rmdir", "mkdir", "link", "symlink", "truncate", "chmod",
                "chown", "utimens", "fallocate", "fsync"}


def run(tier, v):
    ex = fsx.Explorer()
    opt = {"meta": True}

    def oracle(sc, base, x):
        v.count()
        bad = []
        for o in x.trace:
            if o.cls == "log" or o.op == "signal":
                continue
            if o.cls in ("w", "x") and o.op != "close" or o.op in MUTATING_OPS:
                bad.append(("mutating-call-%s" % o.op, repr(o)))
        if x.meta_before != x.meta_after:
            for root in x.meta_before:
                d = cli.snapshot_diff(x.meta_before[root], x.meta_after[root])
                if d:
                    bad.append(("snapshot-differs", "%s: %r" % (root, d[:3])))
        if x.timed_out:
            bad.append(("hang", ""))
        v.distinct((sc.name, x.terminated()))
        for cls, what in bad:
            v.violation("%s:%s" % (cls, oracles.plan_signature(x)),
                        {"scenario": sc.name, "plan": fsx.plan_str(x.plan), "what": what, "terminated": x.terminated()},
                        replay_files=_replay_files(sc, x), replay_cmd=_replay_cmd(sc, x))

    # --- configuration product, fault-free
    locks = {"absent": (None, ()), "valid": (8, ()), "ahead": (100, ()), "corrupt": ("next_reference_id: banana\n", ()),
             "empty": ("", ()), "unreadable(dir)": (None, ("lockdir",)),
             "git-conflict": ("# AUTO-GENERATED FILE - DON'T EDIT\n<<<<<<< HEAD\nnext_reference_id: 16\n=======\nnext_reference_id: 18\n>>>>>>> feature\n", ()),
             "duplicate-key": ("next_reference_id: 5\nnext_reference_id: 9\n", ()),
             "extra-keys+crlf": ("next_reference_id: 12\r\nother: 1\r\n", ()),
             "negative": ("next_reference_id: -4\n", ()), "too-large": ("next_reference_id: 4294967296\n", ()),
             "bom": ("\ufeffnext_reference_id: 7\n", ())}
    caches = {"omitted": None, "true": True, "false": False}
    structs = {"on": True, "off": False}
    trees = {"missing": (MISSING, ()), "none-missing": (NONE_MISSING, ()), "unreadable-among-good": (UNREADABLE, ()),
             "empty-scope": (EMPTY_SCOPE, ()), "symlinks": (MISSING, ("symlinks",)), "structured-shapes": (STRUCT, ()),
             "big": (big_tree(1000 if tier == "thorough" else 200), ())}
    configs = {"valid": None, "invalid-yaml": "---\n: this is invalid YAML\n  -", "missing-file": "noconfig",
               "bad-source-dir": "source_dir: ./nonexistent\nrust:\n  log_macros:\n    - module: log\n      name: info\n",
               "source-dir-is-file": "source_dir: ./Breadlog.yaml\nrust:\n  log_macros:\n    - module: log\n      name: info\n"}
    # what a Rust project root usually contains besides the sources (a tool that "helps" by looking at them must still not write)
    furniture = {"bare": {}, "cargo-package": {"Cargo.toml": "[package]\nname = \"demo\"\nversion = \"0.1.0\"\nedition = \"2021\"\n",
                                               "Cargo.lock": "version = 3\n", ".gitignore": "/target\n", ".git/HEAD": "ref: refs/heads/main\n",
                                               "README.md": "# demo\n", "target/.rustc_info.json": "{}\n"}}
    plans = []
    for (ln, (lk, lx)), (cn, ch), (sn, st), (tn, (tr, tx)), (fn, cf), (un, fu) in itertools.product(
            locks.items(), caches.items(), structs.items(), trees.items(), configs.items(), furniture.items()):
        if tn == "big" and not (ln in ("absent", "valid") and fn == "valid" and un == "bare"):
            continue
        if un == "cargo-package" and not (fn != "valid" or (ln in ("absent", "valid", "git-conflict") and sn == "off")):
            continue
        extras = tuple(lx) + tuple(tx) + (("noconfig",) if cf == "noconfig" else ())
        sc = fsx.Scenario("cfg[lock=%s cache=%s structured=%s tree=%s config=%s root=%s]" % (ln, cn, sn, tn, fn, un), tr, check=True,
                          lock=lk, structured=st, use_cache=ch, extras=extras, raw_files=fu,
                          config_text=cf if cf not in (None, "noconfig") else None)
        plans.append(sc)
    n = 0
    for x, sc in zip(ex.pool.imap(fsx.execute, [(sc, [], opt) for sc in plans], chunksize=4), plans):
        ex._account(x)
        oracle(sc, x, x)
        n += 1
    v.subspace("configuration product lock x use_cache x structured x tree x config x project-root furniture {bare, cargo package} (fault-free --check)", n)
    v.sample({"configuration": plans[0].name})
    v.sample({"configuration": plans[len(plans) // 2].name})

    # --- however the run ends: every action at every operation of representative configurations
    reps = [fsx.Scenario("rep-missing-lock", MISSING, check=True, lock=8),
            fsx.Scenario("rep-missing-nolock", MISSING, check=True),
            fsx.Scenario("rep-structured-corruptlock", STRUCT, check=True, structured=True, lock="garbage"),
            fsx.Scenario("rep-unreadable-nocache", UNREADABLE, check=True, use_cache=False)]
    for sc in reps:
        # "logfail": stdout / stderr is a closed pipe or a full device (`--check | grep -q x`, `> /dev/full`): the logger panics
        base, nx, capped = ex.explore(sc, {"kill", "fail", "sig", "logfail"}, 2 if tier == "thorough" else 1, oracle, opt=opt)
        v.subspace("%s: every op x {kill, fail(errno menu), SIGINT, SIGTERM, EPIPE on every write to stdout/stderr}" % sc.name, nx, exhaustive=not capped,
                   ops_in_fault_free_run=len(base.trace))
    # --- unusual temp-directory settings (a check run needs no temp directory at all)
    ntf = 0
    for sc in reps[:2]:
        for form in ("nonexistent", "file", "relative", "trailing-slash", "non-utf8", "empty"):
            x = fsx.execute((sc, [], dict(opt, tmp_form=form)))
            ex._account(x)
            sc2 = fsx.Scenario(sc.name + "+TMPDIR=" + form, sc.files, check=True, lock=sc.lock)
            oracle(sc2, x, x)
            ntf += 1
    v.subspace("TMPDIR given as a nonexistent path / a file / a relative path / with a trailing slash / a non-UTF-8 name", ntf)
    # --- whatever the tree contains: every state a killed / failed / interrupted *edit* run can leave behind (temp files, a half-way
    #     lock file, partially updated trees), then --check on it under the monitor
    def oracle_post(sc, base, x):
        v.count()
        v.distinct((sc.name, "post", x.terminated(), tuple(x.tmp), str(x.lock)))
        bad = []
        if x.post_mut_ops:
            bad.append(("check-after-interrupted-edit:mutating-call", x.post_mut_ops[:3]))
        if x.post_snap_diff:
            bad.append(("check-after-interrupted-edit:snapshot-differs", x.post_snap_diff))
        for cls, what in bad:
            v.violation(cls, {"scenario": sc.name, "edit_plan": fsx.plan_str(x.plan), "what": repr(what)[:600]},
                        replay_files=_replay_files(sc, x), replay_cmd=_replay_cmd(sc, x) + "\n# then: breadlog -c $W/proj/Breadlog.yaml --check  (and compare the directory before/after)")
    for mk in (scenarios.s2, scenarios.s3, scenarios.s6):
        sc = mk(check=False)
        base, nx, capped = ex.explore(sc, {"kill", "fail", "sig"}, 1, oracle_post, opt={"then_check_monitored": True})
        v.subspace("%s: --check on the state left by an edit run with every kill / fault / signal at every operation" % sc.name, nx, exhaustive=not capped)
    ex.close()
    v.coverage["rule"] = ("one evaluation = one --check run of the real binary under the interposer; oracle = no mutating libc call except "
                          "writes to fd 1/2 + identical content/mode/mtime/inode snapshots of project, TMPDIR, cwd, outside dir; "
                          "distinct = distinct (configuration, termination)")
    v.coverage["states"] = len(ex.end_states)
    v.coverage["transitions"] = ex.stats["ops_executed"]
    v.assumptions += ["mutating libc entry points are all interposed (strace self-test: ./check SELFTEST)"]
