"""C02 — an ID once assigned is never assigned again (E2: explicit-state BFS whose transition function is the real binary).

State = (tree: file -> [(statement uid, id|None)], lock: None|'corrupt'|n, retired: IDs once written whose statement is gone).
Events = developer edits and tool runs; every edit run additionally with one kill / I/O failure / stop signal at every
operation of *that* run's fault-free trace (engine E1 supplies these successors)."""
import collections
import errno
import itertools
import re
import signal

import cli
import fsx
import oracles

LEVEL = "model_checking"

FILES = ["a.rs", "b.rs", "c.rs"]
_LINE = re.compile(rb'info!\("(?:\[ref: ([0-9]+)\] )?s([0-9]+)"\);')


def render(tree):
    out = {}
    for fname, stmts in tree:
        out[fname] = "".join('fn f%d() { info!("%ss%d"); }\n' % (uid, ("[ref: %d] " % i) if i is not None else "", uid) for uid, i in stmts)
    return out


def parse_tree(src):
    tree = []
    for fname in sorted(src):
        stmts = []
        for m in _LINE.finditer(src[fname]):
            stmts.append((int(m.group(2)), int(m.group(1)) if m.group(1) else None))
        tree.append((fname, tuple(stmts)))
    return tuple(tree)


def canon(tree, lock, retired):
    ren = {}
    out = []
    for fname, stmts in tree:
        ss = []
        for uid, i in stmts:
            if uid not in ren:
                ren[uid] = len(ren) + 1
            ss.append((ren[uid], i))
        out.append((fname, tuple(ss)))
    return (tuple(out), lock, tuple(sorted(retired)))


def live_ids(tree):
    return [i for _, stmts in tree for _, i in stmts if i is not None]


def n_live(tree):
    return sum(len(s) for _, s in tree)


def fresh_uid(tree):
    return max([u for _, s in tree for u, _ in s] + [0]) + 1


def dev_events(tree, retired, max_files, max_stmts):
    """Yields (label, new_tree, new_retired)."""
    names = [f for f, _ in tree]
    if n_live(tree) < max_stmts:
        for fi, (f, stmts) in enumerate(tree):
            u = fresh_uid(tree)
            t = list(tree)
            t[fi] = (f, stmts + ((u, None),))
            yield ("add(%s)" % f, tuple(t), retired)
        if len(tree) < max_files:
            nf = [f for f in FILES if f not in names][0]
            t = tuple(sorted(tree + ((nf, ((fresh_uid(tree), None),)),)))
            yield ("newfile(%s)" % nf, t, retired)
    ids = live_ids(tree)
    if ids:
        mx = max(ids)
        t = tuple((f, tuple(s for s in stmts if s[1] != mx)) for f, stmts in tree)
        yield ("del_max", t, retired | {mx})
    for fi, (f, stmts) in enumerate(tree):
        for si, (u, i) in enumerate(stmts):
            if i is not None and ids and i == max(ids):
                continue   # same as del_max
            t = list(tree)
            t[fi] = (f, stmts[:si] + stmts[si + 1:])
            yield ("del(%s,%d)" % (f, si), tuple(t), retired | ({i} if i is not None else set()))
    if len(tree) > 1:
        for fi, (f, stmts) in enumerate(tree):
            t = tuple(x for k, x in enumerate(tree) if k != fi)
            yield ("delfile(%s)" % f, t, retired | {i for _, i in stmts if i is not None})
    # a file renamed with everything in it (its statements keep their IDs; the order in which files are visited changes)
    unused = [f for f in FILES if f not in names]
    if unused and n_live(tree) <= 3:      # (bounded: renames are explored on trees of at most three statements)
        for fi, (f, stmts) in enumerate(tree):
            if any(i is not None for _, i in stmts):
                t = tuple(sorted(tuple(x for k, x in enumerate(tree) if k != fi) + ((unused[-1], stmts),)))
                yield ("mvfile(%s->%s)" % (f, unused[-1]), t, retired)


def scenario(tree, lock):
    files = render(tree)
    lk = None
    if lock == "corrupt":
        lk = ""
    elif isinstance(lock, int):
        lk = lock
    return fsx.Scenario("hist", files, lock=lk)


FAULTS = {"open": [errno.EIO], "creat": [errno.ENOSPC], "write": [errno.EIO, errno.ENOSPC], "rename": [errno.EXDEV, errno.EIO], "read": [errno.EIO]}


def fault_plans(base):
    plans = []
    first = next((o.k for o in base.trace if o.op == "opendir"), 0)
    for o in base.trace:
        if o.op == "signal":
            continue
        plans.append([(o.k, "kill-after")])
        if o.cls in ("r", "w"):
            for e in FAULTS.get(o.op, []):
                plans.append([(o.k, "fail:%d" % e)])
        if o.k >= first:
            plans.append([(o.k, "sig-before:%d" % signal.SIGTERM)])
            plans.append([(o.k, "sig-after:%d" % signal.SIGTERM)])
            plans.append([(o.k, "sig-before:%d" % signal.SIGINT)])
    return plans


class Search:
    def __init__(self, v, ex, max_files, max_stmts, depth, max_faulty, wall_cap=None):
        self.v, self.ex = v, ex
        self.wall_cap = wall_cap
        self.t0 = __import__("time").time()
        self.capped = False
        self.completed_depth = 0
        self.max_files, self.max_stmts, self.depth, self.max_faulty = max_files, max_stmts, depth, max_faulty
        self.seen = {}
        self.transitions = 0
        self.binary_runs = 0
        self.dominance_notes = 0
        self.max_depth = 0

    def apply_run(self, tree, lock, retired, x, hist, label):
        """Bookkeeping + invariant after an edit run `x`. Returns (tree', lock', retired') or None on violation."""
        new_tree = parse_tree(x.src)
        before = {u: i for _, s in tree for u, i in s}
        after = {u: i for _, s in new_tree for u, i in s}
        retired = set(retired)
        for u, i in before.items():
            if i is not None and after.get(u) != i:
                retired.add(i)      # statement lost (or lost its ID): that ID is retired
        ok = True
        seen_ids = {}
        for u, i in after.items():
            if i is None:
                continue
            if i in seen_ids:
                self.report("duplicate-id", hist + [label], {"id": i, "statements": [seen_ids[i], u]}, x)
                ok = False
            seen_ids[i] = u
            if i in retired and before.get(u) != i:
                self.report("retired-id-reassigned", hist + [label], {"id": i, "statement": u}, x)
                ok = False
        return (new_tree, x.lock, frozenset(retired)) if ok else None

    def report(self, kind, hist, detail, x):
        cause = [h for h in hist if "!" in h]
        cause_sig = "+".join(sorted({coarse_cause(c.split("!")[1]) for c in cause})) if cause else "fault-free"
        detail = dict(detail, history=hist)
        self.v.violation("%s:%s" % (kind, cause_sig), detail, replay_files={"history.txt": "\n".join(hist) + "\n"})

    def dominance(self, tree, lock, retired, hist):
        """lock > every ID ever written; converted into a verdict only through witness continuations."""
        ever = set(live_ids(tree)) | set(retired)
        if not ever:
            return
        if isinstance(lock, int) and (lock > max(ever) or lock == 0):
            return      # (0 is the tool's "no IDs left" marker: nothing can be handed out any more)
        if lock is None and not retired - set(live_ids(tree)):
            # no lock at all: the next run scans the code; only retired IDs above the tree maximum are at risk
            if not [r for r in retired if r > max(live_ids(tree) + [0])]:
                return
        # witness continuations beyond the depth bound
        for wit in (["add"], ["del_max", "add"]):
            t, r = tree, set(retired)
            labels = []
            okw = True
            for w in wit:
                if w == "add":
                    if not t:
                        okw = False
                        break
                    f, stmts = t[0]
                    t = ((f, stmts + ((fresh_uid(t), None),)),) + t[1:]
                    labels.append("add(%s)" % f)
                else:
                    ids = live_ids(t)
                    if not ids:
                        okw = False
                        break
                    mx = max(ids)
                    t = tuple((f, tuple(s for s in stmts if s[1] != mx)) for f, stmts in t)
                    r.add(mx)
                    labels.append("del_max")
            if not okw:
                continue
            x = fsx.execute((scenario(t, lock), [], {}))
            self.binary_runs += 1
            res = self.apply_run(t, lock, frozenset(r), x, hist + ["[witness]"] + labels, "edit")
            if res is None:
                return
        self.dominance_notes += 1

    def run(self, roots):
        q = collections.deque()
        for name, (tree, lock, retired) in roots:
            key = (canon(tree, lock, retired), 0)
            if key not in self.seen:
                self.seen[key] = 0
                q.append((tree, lock, frozenset(retired), 0, 0, ["start:" + name]))
        while q:
            tree, lock, retired, d, nf, hist = q.popleft()
            self.max_depth = max(self.max_depth, d)
            if d >= self.depth:
                continue
            # BFS order: when a state of depth d is taken from the queue, every state of depth < d has been expanded
            self.completed_depth = d
            if self.wall_cap and __import__("time").time() - self.t0 > self.wall_cap:
                self.capped = True
                break
            succ = []
            # developer events
            for label, t2, r2 in dev_events(tree, set(retired), self.max_files, self.max_stmts):
                succ.append((label, t2, lock, frozenset(r2), nf))
                self.transitions += 1
            if n_live(tree) > 0:
                sc = scenario(tree, lock)
                # check must be a self-loop
                sc_check = fsx.Scenario("hist-check", sc.files, check=True, lock=sc.lock)
                xc = fsx.execute((sc_check, [], {}))
                self.binary_runs += 1
                self.transitions += 1
                if parse_tree(xc.src) != tree or xc.lock != lock:
                    self.report("check-changed-state", hist + ["check"], {}, xc)
                # fault-free edit
                base = fsx.execute((sc, [], {}))
                self.binary_runs += 1
                self.transitions += 1
                res = self.apply_run(tree, lock, retired, base, hist, "edit")
                if res is not None:
                    succ.append(("edit", res[0], res[1], res[2], nf))
                    self.dominance(res[0], res[1], res[2], hist + ["edit"])
                # faulty edits: only when something would be written (otherwise the run does not touch IDs) and within the fault budget
                if nf < self.max_faulty and any(i is None for _, s in tree for _, i in s):
                    plans = fault_plans(base)
                    results = {}
                    for x in self.ex.run_plans(sc, plans):
                        self.binary_runs += 1
                        self.transitions += 1
                        label = "edit!%s" % describe(x)
                        res = self.apply_run(tree, lock, retired, x, hist, label)
                        if res is None:
                            continue
                        k = canon(*res)
                        if k not in results:
                            results[k] = (label, res)
                    for label, res in results.values():
                        succ.append((label, res[0], res[1], res[2], nf + 1))
                        self.dominance(res[0], res[1], res[2], hist + [label])
            for label, t2, l2, r2, nf2 in succ:
                if n_live(t2) > self.max_stmts or len(t2) > self.max_files or len(t2) == 0:
                    continue
                key = (canon(t2, l2, r2), nf2)
                if key in self.seen:
                    continue
                self.seen[key] = d + 1
                q.append((t2, l2, r2, d + 1, nf2, hist + [label]))


def coarse_cause(d):
    """kill-after(rename:tmp)@37 -> kill-before-lock-write ; fail:EIO(read:lock)@6 -> io-failure(read:lock) ; sig-* -> stop-signal"""
    d = re.sub(r"@\d+$", "", d)
    m = re.match(r"([a-z-]+)(?::([A-Z0-9]+))?\(([a-z?]+):([a-z]*)\)", d)
    if not m:
        return d
    kind, arg, op, role = m.groups()
    if kind.startswith("kill"):
        return "kill-during-lock-write" if role == "lock" else "kill-before-lock-write"
    if kind.startswith("sig"):
        return "stop-signal(SIG%s)" % arg
    return "io-failure(%s:%s)" % (op, role)


def describe(x):
    k, a = x.plan[0]
    o = oracles.op_at(x, k)
    kind = a.split(":")[0]
    arg = a.split(":")[1] if ":" in a else ""
    name = o.op if o is not None else "?"
    role = ""
    if o is not None:
        p = o.path
        role = "tmp" if p.startswith("$R1") else "lock" if p.endswith("Breadlog.lock") else "src" if p.startswith("$R0/src/") else \
            "srcdir" if p.startswith("$R0/src") else "config" if p.endswith(".yaml") else "stdout" if o.cls == "log" else ""
    if kind.startswith("sig"):
        arg = {"2": "INT", "15": "TERM"}.get(arg, arg)
    elif kind == "fail":
        arg = errno.errorcode.get(int(arg), arg)
    return "%s%s(%s:%s)@%d" % (kind, ":" + arg if arg else "", name, role, k)


def count_sweep(v, ex, s, tier):
    """Kill the edit run right after every operation that moves content or the lock into place, for every pair of per-file
    statement counts: the lock must already cover every ID that reached a source file (it is reserved before the file is
    rewritten). Counts matter because reservations are arithmetic on them; small-scope histories never see a file with 17 statements."""
    nmax = 70 if tier == "thorough" else 20
    locks = [1, 250, 65530] if tier == "thorough" else [1, 65530]
    jobs = []
    for n1 in range(1, nmax + 1):
        for n2 in range(1, nmax + 1):
            if tier != "thorough" and (n1 + n2) % 2 and n1 > 4 and n2 > 4:
                continue   # quick: every other pair beyond the smallest ones
            for L in locks:
                if L != 1 and (n1 * 31 + n2) % 5:
                    continue
                jobs.append((n1, n2, L))
    n_exec = 0
    for n1, n2, L in jobs:
        tree = (("a.rs", tuple((i + 1, None) for i in range(n1))), ("b.rs", tuple((n1 + i + 1, None) for i in range(n2))))
        sc = scenario(tree, L)
        base = fsx.execute((sc, [], {}))
        s.binary_runs += 1
        plans = []
        for o in base.trace:
            if o.op == "rename" or (o.cls == "w" and o.path.endswith(("Breadlog.lock", "Breadlog.lock.tmp"))):
                plans.append([(o.k, "kill-after")])
                plans.append([(o.k, "kill-before")])
        for x in ex.run_plans(sc, plans):
            s.binary_runs += 1
            s.transitions += 1
            n_exec += 1
            t2 = parse_tree(x.src)
            ids = live_ids(t2)
            if not ids:
                continue
            if isinstance(x.lock, int) and x.lock > max(ids):
                continue
            # dominance fails: turn it into a concrete reuse
            label = "edit!%s" % describe(x)
            hist = ["start:two-files(%d,%d statements, lock %d)" % (n1, n2, L), label]
            before = s.dominance_notes
            s.dominance(t2, x.lock, frozenset(), hist)
    v.subspace("count sweep: two files with n1 x n2 unreferenced statements (1..%d), lock in {%s}; edit run killed before/after every rename and "
               "every lock-file operation; lock must cover every ID already in a source file (witness continuation shows the reuse)" % (
                   nmax, ",".join(map(str, locks))), n_exec, exhaustive=True, pairs=len(jobs))


def recovery_sweep(v, ex, s, tier):
    """What a killed / failed edit run leaves behind (scratch files in TMPDIR, Breadlog.lock.tmp) must not stop the NEXT run from
    recording its IDs: the follow-up run happens in the very same directories and is compared with the same run in a clean world."""
    import re as _re
    idre = _re.compile(rb"\[ref: ([0-9]{1,10})\]")

    def max_id(src):
        return max([int(m) for c in src.values() for m in idre.findall(c)] + [0])
    starts = [((("a.rs", ((1, None), (2, None))), ("b.rs", ((3, None),))), 1),
              ((("a.rs", ((1, 1), (2, None))), ("b.rs", ((3, 2), (4, None)))), 3)]
    if tier == "thorough":
        starts.append(((("a.rs", ((1, None),)), ("b.rs", ((2, None),)), ("c.rs", ((3, None), (4, None)))), None))
    n = 0

    def oracle(sc, base, x):
        prob = oracles.followup_lock_problem(x, max_id)
        s.binary_runs += 3
        if prob:
            fo = x.follow
            v.violation("%s:after-%s" % (prob, coarse_cause(describe(x)) if x.plan else "fault-free"),
                        {"first_run": "edit!" + describe(x) if x.plan else "edit", "leftovers": fo["leftovers"], "then": "fault-free edit run in the same directories",
                         "lock_after_recovery": fo["p_lock"], "max_id_in_tree": max_id(fo["p_src"]), "clean_world_lock": fo["q_lock"]})
    for tree, lock in starts:
        sc = scenario(tree, lock)
        base, nx, capped = ex.explore(sc, {"kill", "fail"}, 1, oracle, opt={"followup": "none"}, op_filter=lambda o, d, x: o.cls == "w")
        n += nx
    v.subspace("recovery sweep: edit run killed / failed at every mutating operation, then a fault-free edit run in the same directories "
               "(leftovers kept); its lock must cover its IDs whenever the clean-world run's lock does", n, exhaustive=True)


def run_config_dir_on_other_fs(v):
    """Environment: the configuration directory (where the lock lives) is on another file system than the sources and TMPDIR - every rename
    across that boundary fails with EXDEV. Sources and lock are each replaced within their own file system, so nothing may change: over
    run, developer edit (delete the highest-numbered statement, add one), run, no ID is given to a second statement."""
    import re as _re
    n = 0
    for structured, lock0, edit in itertools.product((False, True), (None, 1, 50), ("del_max+add", "add")):
        def st(k, ref=None):
            if structured:
                return 'fn f%d() { info!(%sk = %d; "m%d"); }\n' % (k, "ref = %d, " % ref if ref else "", k, k)
            return 'fn f%d() { info!("%sm%d"); }\n' % (k, "[ref: %d] " % ref if ref else "", k)
        files = {"a.rs": st(0) + st(1), "b.rs": st(2)}
        owner = {}                       # ID -> statement (by its message text m<k>)
        lock = lock0
        hist = []
        violated = None
        for step in range(3):
            sc = fsx.Scenario("xdev-config-dir", dict(files), lock=lock, structured=structured)
            x = fsx.execute((sc, [], {"config_dir_on_other_fs": True}))
            hist.append("edit(exit=%s)" % x.terminated())
            n += 1
            v.count()
            for fname, content in x.src.items():
                for m in _re.finditer(rb'(?:\[ref: (\d+)\] |ref = (\d+)(?:u32)?[,;] [^"]*")m(\d+)', content):
                    i = int(m.group(1) or m.group(2))
                    k = int(m.group(3))
                    if owner.setdefault(i, k) != k and violated is None:
                        violated = "ID %d written for m%d was written for m%d before" % (i, k, owner[i])
            files = {f: c.decode() for f, c in x.src.items()}
            lock = x.lock if isinstance(x.lock, int) else None
            if owner and lock is not None and lock != 0 and lock <= max(owner) and violated is None:
                violated = "lock %d does not cover ID %d" % (lock, max(owner))
            # developer edit
            if step < 2:
                ids = sorted(owner)
                if edit.startswith("del_max") and ids:
                    top = owner[max(i for i in ids if any(("m%d" % owner[i]).encode() in c.encode() for c in files.values()))] if ids else None
                    if top is not None:
                        for f in files:
                            files[f] = "".join(l + "\n" for l in files[f].split("\n") if l and ('"m%d"' % top not in l and ' m%d"' % top not in l and 'm%d")' % top not in l))
                        hist.append("delete m%d" % top)
                newk = 10 + step
                files["a.rs"] = files.get("a.rs", "") + st(newk)
                hist.append("add m%d" % newk)
        v.distinct(("xdev-config-dir", structured, lock0, edit))
        if violated:
            v.violation("id-reassigned:config-dir-on-other-fs", {"structured": structured, "lock_at_start": lock0, "developer_edit": edit, "history": hist, "what": violated,
                                                                 "ids": {str(i): "m%d" % k for i, k in sorted(owner.items())}})
    v.subspace("environment 'configuration directory on another file system than sources and TMPDIR' (EXDEV across the boundary): run, {delete the "
               "highest-numbered statement +} add one, run, again, run x lock {absent, 1, 50} x style", n, exhaustive=True)


def run(tier, v):
    run_config_dir_on_other_fs(v)
    ex = fsx.Explorer()
    if tier == "thorough":
        s = Search(v, ex, max_files=3, max_stmts=5, depth=6, max_faulty=2, wall_cap=int(__import__("os").environ.get("VERIF_C02_CAP_S", "3600")))
    else:
        s = Search(v, ex, max_files=2, max_stmts=3, depth=4, max_faulty=1)
    # roots: produced by the real tool from ID-free trees, so every ID in them was genuinely written by Breadlog
    roots = []
    t0 = (("a.rs", ((1, None),)),)
    roots.append(("fresh-project", (t0, None, frozenset())))
    x = fsx.execute((scenario((("a.rs", ((1, None), (2, None))), ("b.rs", ((3, None),))), None), [], {}))
    t1 = parse_tree(x.src)
    roots.append(("ids-with-lock", (t1, x.lock, frozenset())))
    # lock ahead of the tree: delete the statement with the highest ID
    mx = max(live_ids(t1))
    t2 = tuple((f, tuple(st for st in stmts if st[1] != mx)) for f, stmts in t1)
    t2 = tuple((f, st) for f, st in t2 if st) or t2
    roots.append(("lock-ahead-of-tree", (t2, x.lock, frozenset({mx}))))
    # the far end of the ID range (hand-made: the tool cannot be made to count that far): the last ID, then "no IDs left"
    roots.append(("ids-near-the-end-of-the-range-no-lock", ((("a.rs", ((1, 4294967294),)),), None, frozenset())))
    roots.append(("lock-at-the-last-id", ((("a.rs", ((1, 5),)),), 4294967295, frozenset())))
    s.run(roots)
    count_sweep(v, ex, s, tier)
    recovery_sweep(v, ex, s, tier)
    ex.close()
    v.count(s.binary_runs)
    v.coverage["distinct_nontrivial"] = len(s.seen)
    v.coverage["states"] = len(s.seen)
    v.coverage["transitions"] = s.transitions
    v.coverage["traces_validated_against_impl"] = s.binary_runs
    v.coverage["max_depth"] = s.max_depth
    v.coverage["dominance_failures_without_concrete_reuse"] = s.dominance_notes
    v.coverage["bounds"] = {"max_files": s.max_files, "max_live_statements": s.max_stmts, "depth": s.depth, "faulty_runs_per_history": s.max_faulty}
    v.subspace("BFS over (tree, lock, retired IDs) from 5 start states; events: add/newfile/del_max/del/delfile/mvfile (rename, trees of <= 3 statements), check, edit, and edit with one "
               "kill-after / I/O failure / SIGTERM / SIGINT at every operation of that run", len(s.seen), exhaustive=not s.capped,
               **({"wall_cap_hit_s": s.wall_cap, "all_states_of_depth_below_this_were_expanded": s.completed_depth} if s.capped else {}))
    samples = [k for k in list(s.seen)[:400:80]]
    for k in samples[:4]:
        v.sample({"state": repr(k[0]), "faulty_runs_used": k[1], "depth": s.seen[k]})
    v.coverage["rule"] = ("states are canonical (tree, lock, retired-ID set) triples; every transition executes the real release binary (or is a "
                          "developer edit of the materialised tree); invariant: no ID on two statements, no retired ID carried again")
    v.assumptions += ["the lock file is kept and not edited by hand (premise of the property)", "process death at libc-call boundaries, page cache intact"]
