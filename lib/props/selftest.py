"""SELFTEST — machinery self-tests (not a property): shim vs. strace agreement, trace determinism, token-strip."""
import os
import re
import subprocess

import cli
import fsx
import scenarios
from vcommon import BIN, SHIM, scratch_dir, MachineryError

LEVEL = "other"

MUT = re.compile(r"^(\d+)\s+(openat|open|creat|write|writev|pwrite64|rename|renameat|renameat2|unlink|unlinkat|mkdir|mkdirat|rmdir|"
                 r"link|linkat|symlink|symlinkat|truncate|ftruncate|fallocate|chmod|fchmod|fchmodat|chown|fchown|fchownat|lchown|"
                 r"utimensat|utime|utimes|fsync|fdatasync|copy_file_range|sendfile|mknod|mknodat|setxattr|fsetxattr)\((.*)")


def strace_mutations(path):
    out = []
    for line in open(path, errors="replace"):
        m = MUT.match(line)
        if not m:
            continue
        name, rest = m.group(2), m.group(3)
        if name in ("openat", "open"):
            if not re.search(r"O_WRONLY|O_RDWR|O_CREAT|O_TRUNC|O_APPEND", rest):
                continue
            name = "open-write"
        if name in ("write", "writev", "pwrite64"):
            fdm = re.match(r"(\d+)<([^>]*)>", rest)
            if not fdm:
                continue
            fd, target = int(fdm.group(1)), fdm.group(2)
            if fd in (1, 2) or target.startswith("anon_inode:") or target.startswith("pipe:") or target.startswith("socket:"):
                continue
            if target.endswith("fsx.log"):
                continue
            name = "write"
        if "fsx.log" in rest and name == "open-write":
            continue
        out.append((name, rest[:160]))
    return out


def run(tier, v):
    work = scratch_dir("selftest")
    n = 0
    for mk in (scenarios.s2, scenarios.s3, scenarios.s6, scenarios.s5):
        for check in (False, True):
            sc = mk(check=check)
            w = os.path.join(work, "w%d" % n)
            n += 1
            os.makedirs(w)
            proj = sc.materialise(w)
            log = os.path.join(w, "fsx.log")
            st = os.path.join(w, "strace.txt")
            env = dict(os.environ, FSX_LOG=log, FSX_ROOTS=":".join([proj, os.path.join(w, "tmp")]),
                       TMPDIR=os.path.join(w, "tmp"))
            open(log, "w").close()
            cmd = ["strace", "-f", "-y", "-E", "LD_PRELOAD=" + SHIM, "-o", st, BIN, "-c", os.path.join(proj, "Breadlog.yaml")] + (["--check"] if check else [])
            subprocess.run(cmd, cwd=os.path.join(w, "cwd"), env=env, stdout=subprocess.DEVNULL, stderr=subprocess.DEVNULL)
            kernel = strace_mutations(st)
            shim = [o for o in cli.parse_trace(log) if o.cls in ("w", "x") and o.op not in ("close",)]
            kn = sorted(k[0].replace("renameat2", "rename").replace("renameat", "rename").replace("unlinkat", "unlink") for k in kernel)
            sn = sorted({"creat": "open-write", "openw": "open-write"}.get(o.op, o.op) for o in shim)
            v.count()
            v.distinct((sc.name, check, tuple(kn)))
            if kn != sn:
                raise MachineryError("shim/strace disagreement in %s check=%s:\n kernel=%r\n shim=%r" % (sc.name, check, kernel, shim))
    v.sample({"what": "kernel-level mutating syscalls (strace -f -y) == interposed mutating records, 8 runs"})
    # token-strip self-test
    assert cli.token_strip(b'info!("x")', b'info!("[ref: 3] x")') == [(7, b"[ref: 3] ")]
    assert cli.token_strip(b'info!("[ref: 99999999999] x")', b'info!("[ref: 9] [ref: 99999999999] x")') == [(7, b"[ref: 9] ")]
    assert cli.token_strip(b'a', b'b') is None
    assert cli.token_strip(b'info!(a = 1; "x")', b'info!(ref = 5, a = 1; "x")') == [(6, b"ref = 5, ")]
    assert cli.line_col("é\n\tx".encode(), 4) == (2, 2)
    v.count(5)
    v.coverage["explanation"] = "machinery self-tests: shim completeness against strace, token-strip unit cases"
    v.coverage["rule"] = "self-test"
