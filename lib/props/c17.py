"""C17 — no input makes Breadlog panic or hang (E3 in-process + E4 through the CLI)."""
import itertools
import multiprocessing
import os
import re
import shutil
import time

import cli
import corpus
import gen
import vh
from vcommon import scratch_dir, NCPU

LEVEL = "exploration"

SIGMA = ["info", "x", "é", "名", "😀", "!", "(", ")", '"', "\\", ",", ";", "=", ":", "::", "target:", "ref", "7", "[ref: 7]", " ", "\n", "\r\n",
         "//", "/*", "*/", "breadlog:ignore", "\u2028",
         # integers beyond u32 / u64 / u128: arithmetic on IDs and positions must not overflow or unwrap
         "123456789012345678901234567890123456789012", "[ref: 99999999999999999999]"]

SKELETONS = [
    ["info", "!", "(", '"', "x", '"', ")", ";"],
    ["log", "::", "info", "!", "(", '"', "[ref: 7]", " ", "x", '"', ")", ";"],
    ["info", "!", "(", "target:", " ", '"', "t", '"', ",", " ", '"', "x", '"', ")", ";"],
    ["info", "!", "(", "a", " ", "=", " ", "7", ";", " ", '"', "x", '"', ")", ";"],
    ["info", "!", "(", "ref", " ", "=", " ", "7", ",", " ", "b", ":", "?", " ", "=", " ", "x", ";", " ", '"', "m", '"', ",", " ", "x", ")", ";"],
    ["info", "!", "(", "target:", " ", '"', "t", '"', ",", " ", "a", ";", " ", '"', "x", '"', ")", ";"],
    ["//", " ", "breadlog:ignore", "\n", "info", "!", "(", '"', "x", '"', ")", ";"],
    ["/*", " ", "breadlog:ignore", " ", "*/", "\n", "info", "!", "(", '"', "x", '"', ")", ";"],
    ["//", " ", "breadlog:no-kvp", "\n", "info", "!", "(", "a", " ", "=", " ", "7", ";", " ", '"', "x", '"', ")", ";"],
    ["info", "!", "(", "\n", " ", '"', "x", " ", "{", "}", '"', ",", "\n", " ", "x", "\n", ")", ";"],
    ["info", "!", "(", '"', "a", "\\", '"', "b", '"', ")", ";", " ", "warn", "!", "(", '"', "c", '"', ")", ";"],
    ["let", " ", "s", " ", "=", " ", '"', "info", "!", "(", "\\", '"', "x", "\\", '"', ")", '"', ";", "\n", "info", "!", "(", '"', "y", '"', ")", ";"],
    ["é", "!", "(", '"', "x", '"', ")", ";"][1:] and ["x", "::", "é", "::", "info", "!", "(", '"', "名", '"', ")", ";"],
    ["info", "!", "(", "a", " ", "=", " ", '"', ";", ",", '"', ",", " ", "b", ";", " ", '"', "x", '"', ")", ";", "//", " ", "info", "!", "(", '"', "z", '"', ")"],
]


def edits1(toks):
    n = len(toks)
    for i in range(n):
        yield toks[:i] + toks[i + 1:]
        yield toks[:i + 1] + toks[i:]
        for s in SIGMA:
            if s != toks[i]:
                yield toks[:i] + [s] + toks[i + 1:]
    for i in range(n + 1):
        for s in SIGMA:
            yield toks[:i] + [s] + toks[i:]


def build_skel(spec):
    """spec: list of (skeleton index, edit path) - regenerated here to keep the pickles small."""
    for si, depth, lo, hi in spec:
        base = SKELETONS[si]
        k = 0
        if depth == 1:
            gen_ = edits1(base)
        else:
            gen_ = (e2 for e1 in edits1(base) for e2 in edits1(e1))
        for e in itertools.islice(gen_, lo, hi):
            code = "".join(e)
            for style in (False, True):
                yield gen.cfg_index(0, style), code, None, (si, depth)


HAZARD_CHARS = ['"', "\\", "/", "*", "(", ")", "!", ":", ";", ",", "=", "'", "#", "é", "名", "😀", "\u2028", "\r", "\x00", "\ufeff", "\u200e", "0", "9", " ", "\n"]
PAIR_CHARS = ['"', "\\", "/", "*", "😀", "\r"]


def char_edits(text, chars):
    for i in range(len(text) + 1):
        if i < len(text):
            yield text[:i] + text[i + 1:]
        for c in chars:
            yield text[:i] + c + text[i:]
            if i < len(text) and text[i] != c:
                yield text[:i] + c + text[i + 1:]


def build_chars(spec):
    """character-level mutation of the skeleton statements: every deletion, insertion and replacement with every hazard character at
    every character position (depth 2: every pair of such edits with a smaller character set)"""
    for si, depth, lo, hi in spec:
        base = "".join(SKELETONS[si])
        if depth == 1:
            gen_ = char_edits(base, HAZARD_CHARS)
        else:
            gen_ = (e2 for e1 in char_edits(base, PAIR_CHARS) for e2 in char_edits(e1, PAIR_CHARS))
        for code in itertools.islice(gen_, lo, hi):
            for style in (False, True):
                yield gen.cfg_index(0, style), code, None, (si, depth)


def _eval_nopanic(args):
    modname, fname, spec, paths = args
    mod = __import__(modname)
    cases = list(getattr(mod, fname)(spec))
    res = vh.eval_cases([(c[0], c[1]) for c in cases], paths)
    fails = []
    nent = 0
    hashes = set()
    for c, r in zip(cases, res):
        hashes.add(hash((c[0], c[1])))
        if r[0] == "ok":
            nent += 1 if r[1] else 0
        else:
            fails.append({"cfg": c[0], "code": c[1], "class": r[0], "detail": r[1], "label": c[3]})
    return {"n": len(cases), "fails": fails[:200], "nfails": len(fails), "with_entries": nent, "hashes": hashes}


def run_nopanic(pool, modname, fname, specs, paths):
    agg = {"n": 0, "fails": [], "nfails": 0, "with_entries": 0}
    hashes = set()
    for r in pool.imap_unordered(_eval_nopanic, [(modname, fname, s, paths) for s in specs]):
        agg["n"] += r["n"]
        agg["nfails"] += r["nfails"]
        agg["with_entries"] += r["with_entries"]
        hashes |= r["hashes"]
        if len(agg["fails"]) < 2000:
            agg["fails"].extend(r["fails"])
    agg["distinct"] = len(hashes)
    return agg


def build_corpus(spec):
    for rel, lo, hi in spec:
        from vcommon import REPO
        text = open(os.path.join(REPO, rel), "rb").read().decode("utf-8")
        for desc, ed in itertools.islice(corpus.neighbourhood_edits(text), lo, hi):
            for style in (False, True):
                yield gen.cfg_index(0, style), ed, None, (rel, desc)


def build_align(spec):
    """Window/buffer-boundary x UTF-8 alignment sweep: a statement preceded by a long run of multi-byte characters, with every
    ASCII padding 0..3 in front, so that `statement offset - 2^k` falls on every byte of a multi-byte character for every k."""
    for ch, k, pad, where in spec:
        W = 1 << k
        run = ch * ((W + 96) // len(ch.encode()) + 1)
        if where == "comment":
            text = "a" * pad + "// " + run + "\nfn f() { info!(\"x\"); }\n// tail " + run[:40] + "\n"
        elif where == "literal":
            text = "a" * pad + "\nconst S: &str = \"" + run + "\";\nfn f() { info!(\"x\"); warn!(\"" + ch * 3 + "\"); }\n"
        else:   # many short lines of non-ASCII comments before the statement
            line = "// " + ch * 7 + "\n"
            text = "a" * pad + "\n" + line * ((W + 96) // len(line.encode()) + 1) + "fn f() { info!(\"x\"); }\n"
        for style in (False, True):
            yield gen.cfg_index(0, style), text, None, ("align", ch, k, pad, where)


def align_space(kmax):
    for ch in ("é", "名", "😀"):
        for k in range(5, kmax + 1):
            for pad in range(0, 4):
                for where in ("comment", "literal", "lines"):
                    yield (ch, k, pad, where)


def panic_sig(detail, code):
    loc = detail.split(" ")[0] if detail else "?"
    loc = loc.replace("/repo/", "")
    kind = "non-ascii-macro-start" if "char boundary" in detail else "other"
    return "panic@%s:%s" % (loc, kind)


# ------------------------------------------------------------------------------------------------ CLI side


def cli_batch(files, structured, work, tag, timeout_per_file=2.0):
    """files: list of bytes. Runs --check and edit on a tree holding them; bisects when the binary crashes.
    Returns list of (file bytes, mode, description) for offenders."""
    offenders = []

    def run(fs, depth=0):
        proj = os.path.join(work, "%s_%d_%d" % (tag, depth, run.n))
        run.n += 1
        os.makedirs(os.path.join(proj, "src"))
        with open(os.path.join(proj, "Breadlog.yaml"), "w") as f:
            f.write(cli.config_yaml("./src", structured=structured, use_cache=False))
        for i, b in enumerate(fs):
            with open(os.path.join(proj, "src", "f%06d.rs" % i), "wb") as f:
                f.write(b)
        bad = None
        for check in (True, False):
            r = cli.run_breadlog(os.path.join(proj, "Breadlog.yaml"), check=check, cwd=work, tmpdir=work,
                                 timeout=max(20, timeout_per_file * len(fs)))
            if r.panicked or r.timed_out or r.signal is not None:
                bad = ("check" if check else "edit", "timeout" if r.timed_out else ("signal %s" % r.signal if r.signal else "exit %s: %s" % (r.exit, r.stderr[-200:].decode("utf-8", "replace"))))
                break
        shutil.rmtree(proj, ignore_errors=True)
        if bad:
            if len(fs) == 1:
                offenders.append((fs[0], bad[0], bad[1]))
            elif len(offenders) < 20:
                mid = len(fs) // 2
                run(fs[:mid], depth + 1)
                run(fs[mid:], depth + 1)
    run.n = 0
    run(files)
    return offenders


def _cli_job(args):
    files, structured, work, tag = args
    os.makedirs(work, exist_ok=True)
    off = cli_batch(files, structured, work, tag)
    shutil.rmtree(work, ignore_errors=True)
    return len(files), off


BAD_UTF8 = {"lone-continuation": b"\x80", "truncated-2": b"\xc3", "truncated-3": b"\xe2\x82", "truncated-4": b"\xf0\x9f\x98",
            "overlong": b"\xc0\xaf", "surrogate": b"\xed\xa0\x80", "ff": b"\xff", "utf16-bom": b"\xff\xfei\x00n\x00f\x00o\x00"}


def utf8_family(v, work):
    good = b'fn g() { info!("good"); }\n'
    n = 0
    for name, bad in BAD_UTF8.items():
        for pos in ("start", "inside", "end"):
            if pos == "start":
                content = bad + b'fn b() { info!("bad"); }\n'
            elif pos == "inside":
                content = b'fn b() { info!("ba' + bad + b'd"); }\n'
            else:
                content = b'fn b() { info!("bad"); }\n' + bad
            for place in range(3):
                for check in (True, False):
                    proj = os.path.join(work, "u8_%d" % n)
                    n += 1
                    names = ["a.rs", "b.rs", "c.rs"]
                    files = {"src/" + names[i]: (content if i == place else good.replace(b"good", b"good%d" % i)) for i in range(3)}
                    files["Breadlog.yaml"] = cli.config_yaml("./src", use_cache=False)
                    cli.write_tree(proj, files)
                    r = cli.run_breadlog(os.path.join(proj, "Breadlog.yaml"), check=check, cwd=work, tmpdir=work, timeout=20)
                    v.count()
                    v.distinct(("utf8", name, pos, place, check))
                    after = cli.read_tree(proj)
                    problems = []
                    if r.panicked or r.timed_out or r.signal is not None:
                        problems.append("abnormal-termination")
                    rep = cli.Report(r.stdout, names=names, src=os.path.join(proj, "src"), err=r.stderr)
                    if not any(os.path.basename(p) == names[place] for p in rep.read_failures):
                        problems.append("unreadable-file-not-reported")
                    if after["src/" + names[place]] != content:
                        problems.append("unreadable-file-modified")
                    for i in range(3):
                        if i == place:
                            continue
                        o = files["src/" + names[i]]
                        if check:
                            if not any(os.path.basename(f) == names[i] for f, _, _ in rep.missing):
                                problems.append("other-file-not-processed(check)")
                        else:
                            s = cli.token_strip(o, after["src/" + names[i]])
                            if not s or len(s) != 1:
                                problems.append("other-file-not-processed(edit)")
                    for p_ in sorted(set(problems)):
                        v.violation("invalid-utf8:%s" % p_, {"bytes": name, "position": pos, "place": place, "mode": "check" if check else "edit",
                                                            "exit": repr(r), "stdout": r.stdout[-600:].decode("utf-8", "replace")},
                                    replay_files={"proj/" + k: c for k, c in files.items()},
                                    replay_cmd="/verif/.build/repo/release/breadlog -c proj/Breadlog.yaml %s; echo exit=$?" % ("--check" if check else ""))
                    shutil.rmtree(proj, ignore_errors=True)
    v.subspace("invalid UTF-8: 8 byte patterns x {start, inside a statement, end} x position of the bad file among three x mode", n)


def _size_corpus():
    return b"".join(b for _, b in corpus.files())


SIZE_FAMILIES = {
    "empty": lambda n: b"",
    "corpus-concatenated": lambda n: (_size_corpus() * (n // len(_size_corpus()) + 1))[:n].decode("utf-8", "ignore").encode(),
    "statement-list": lambda n: b"".join(b'fn f%d() { info!("statement %d {}", %d); warn!(a = %d; "w"); }\n' % (i, i, i, i) for i in range(n // 70 + 1)),
    "huge-message-literal": lambda n: b'fn f() { info!("' + b"x" * n + b'"); }\n',
    "huge-comment": lambda n: b"/* " + b"c" * n + b' */\nfn f() { info!("x"); }\n',
    "base64-data-in-string-literal": lambda n: b'const DATA: &str = "' + b"QUJD" * (n // 4) + b'";\nfn f() { info!("x"); }\n',
    # a modest number (60) of string literals containing "/*" (glob patterns, never closed by "*/") spread over a file of size n
    "glob-patterns-in-strings": lambda n: b"".join(
        b'let p%d = glob("dir%d/*");\n' % (i, i) + b"// filler\n" * max(0, (n // 60 - 26) // 10) for i in range(60)) + b'fn f() { info!("x"); }\n',
    # n bytes of nothing but block-comment openers and as many closers: recursion in a parser must be bounded
    "deeply-nested-block-comments": lambda n: b"/*" * (n // 4) + b" x " + b"*/" * (n // 4) + b'\nfn f() { info!("x"); }\n',
    # the same nest, but between quotes (the grammar has no top-level string rule: a "/*" in a literal still opens a comment for it)
    "deeply-nested-comment-openers-in-string-literal": lambda n: b'static DOC: &str = "' + b"/*" * (n // 4) + b" x " + b"*/" * (n // 4) + b'";\nfn f() { info!("x"); }\n',
    "deeply-nested-comment-openers-after-quote-char": lambda n: b"const Q: char = '\"';\n" + b"/*" * (n // 4) + b" x " + b"*/" * (n // 4) + b'\nconst R: &str = "\"";\nfn f() { info!("x"); }\n',
    # openers that share their "*" with what looks like a closer: "/*/ /*/ /*/ ..." never closes anything
    # a lone double quote in a line comment before the nest, another quote after it: a guard that pairs quotes without knowing comments is blind
    "deeply-nested-block-comments-between-unrelated-quotes": lambda n: b'// a 6" nail\n' + b"/*" * (n // 4) + b" x " + b"*/" * (n // 4) + b'\nlet s = "x";\nfn f() { info!("x"); }\n',
    # brackets that never close inside a key-value value: bracket matching must neither recurse nor rescan per bracket
    "unclosed-brackets-in-a-key-value": lambda n: b"fn f() { info!(a = b " + b"{([" * (n // 6) + b' "m"); }\nfn g() { info!("x"); }\n',
    "slash-star-slash-chain": lambda n: b"/*/ " * (n // 4) + b'\nfn f() { info!("x"); }\n',
    "long-path-chain-without-bang": lambda n: b"let x = a" + b"::a" * (n // 3) + b';\nfn f() { info!("x"); }\n',
    "long-path-chain": lambda n: b"a" + b"::a" * (n // 3) + b'!("x");\nfn f() { info!("x"); }\n',
    "many-short-lines": lambda n: b"\n".join(b"x;" for _ in range(n // 3)) + b'\ninfo!("x");\n',
}


def size_limit(size):
    """Wall-time limit: generous enough that only effectively-hung runs exceed it (a CI step that needs more than this
    for one file of that size is indistinguishable from a hang for its user)."""
    if size <= 10 ** 5:
        return 100
    if size <= 10 ** 6:
        return 400
    return 1800


def _size_job(args):
    fam, size, structured, check, work = args
    content = SIZE_FAMILIES[fam](size)
    proj = os.path.join(work, "sz_%s_%d_%d_%d" % (fam, size, structured, check))
    cli.write_tree(proj, {"src/big.rs": content, "src/other.rs": b'fn o() { info!("o"); }\n',
                          "Breadlog.yaml": cli.config_yaml("./src", use_cache=False, structured=structured)})
    r = cli.run_breadlog(os.path.join(proj, "Breadlog.yaml"), check=check, cwd=work, tmpdir=work, timeout=size_limit(size))
    shutil.rmtree(proj, ignore_errors=True)
    return fam, size, structured, check, len(content), r.panicked, r.timed_out, r.signal, r.exit, r.wall, r.stderr[-300:]


def size_family(v, work, tier, pool):
    sizes = [10 ** 3, 10 ** 4, 10 ** 5] + ([10 ** 6] if tier == "thorough" else [])
    jobs = []
    for fam in SIZE_FAMILIES:
        for size in sizes:
            if fam == "empty" and size != sizes[0]:
                continue
            for structured in (False, True):
                for check in (True, False):
                    jobs.append((fam, size, structured, check, work))
    # recursion probes at full depth in both tiers (they are cheap: a bounded parser rejects or skips them at once)
    for fam in ("deeply-nested-block-comments", "deeply-nested-comment-openers-in-string-literal", "deeply-nested-comment-openers-after-quote-char", "deeply-nested-block-comments-between-unrelated-quotes", "unclosed-brackets-in-a-key-value", "slash-star-slash-chain", "long-path-chain-without-bang", "long-path-chain"):
        for size in (10 ** 6, 4 * 10 ** 6):
            jobs.append((fam, size, False, True, work))
            jobs.append((fam, size, True, False, work))
    if tier == "thorough":
        for fam in ("corpus-concatenated", "huge-comment", "huge-message-literal"):
            jobs.append((fam, 10 ** 7, False, True, work))
            jobs.append((fam, 10 ** 7, True, False, work))
    walls = {}
    # two phases: the largest probes (4 MB) only run for shapes whose 1 MB runs ended normally - a shape that already fails at 1 MB is
    # reported there, without waiting for a second, four times longer time-out
    big = [j for j in jobs if j[1] > 10 ** 6]
    failed_fams = set()
    for phase in ([j for j in jobs if j[1] <= 10 ** 6], big):
        phase = [j for j in phase if j[0] not in failed_fams]
        for fam, size, structured, check, nbytes, panicked, timed_out, sig, ex, wall, err in pool.imap_unordered(_size_job, phase):
            v.count()
            v.distinct(("size", fam, size, structured, check))
            key = "%s@%d" % (fam, size)
            walls[key] = max(walls.get(key, 0), round(wall, 2))
            if panicked or timed_out or sig is not None:
                failed_fams.add(fam)
                v.violation("size:%s:%s" % (fam, "no-termination-within-%ds@%d-bytes" % (size_limit(size), size) if timed_out else "crash"),
                            {"family": fam, "bytes": nbytes, "mode": "check" if check else "edit", "structured": structured,
                             "timed_out": timed_out, "signal": sig, "exit": ex, "wall_s": round(wall, 2), "stderr": err.decode("utf-8", "replace")})
    v.coverage["max_wall_s_by_family"] = walls
    v.subspace("size family: 8 ordinary shapes + 8 recursion / rescan probes x sizes %r x style x mode (wall limit 100 s up to 100 kB, 400 s up to 1 MB, 1800 s beyond)" % sizes, len(jobs))


def _rep(unit, n):
    """n bytes of `unit(i)` repeated"""
    out = []
    size = 0
    i = 0
    while size < n:
        u = unit(i)
        out.append(u)
        size += len(u)
        i += 1
    return b"".join(out)


# ordinary shapes whose size is "the same thing again": run time has to grow in proportion (scaling oracle)
SCALING_FAMILIES = {
    "referenced-statements": lambda n: _rep(lambda i: b'fn f%d() { info!("[ref: %d] statement %d {}", %d); }\n' % (i, i + 1, i, i), n),
    "referenced-statements-kv": lambda n: _rep(lambda i: b'fn f%d() { info!(ref = %d, k = %d; "statement {}", %d); }\n' % (i, i + 1, i, i), n),
    "unreferenced-statements": lambda n: _rep(lambda i: b'fn f%d() { info!("statement %d {}", %d); warn!(target: "t", a = %d; "w"); }\n' % (i, i, i, i), n),
    "other-macros-string-first": lambda n: _rep(
        lambda i: b'    %d => format!("code %d: {}", x),\n    %d => { println!("value {}", %d); panic!("no") }\n' % (2 * i, i, 2 * i + 1, i), n) + b'fn f() { info!("x"); }\n',
    "other-macros-non-string": lambda n: _rep(lambda i: b'fn t%d() { let v = vec![%d, 2, 3]; assert_eq!(v.len(), 3); assert!(v[0] == %d, "v"); }\n' % (i, i, i), n),
    "unconfigured-log-macros": lambda n: _rep(lambda i: b'fn f%d() { tracing::event!(Level::INFO, "e %d"); my_log!("m %d"); log::log!(lvl, "l"); }\n' % (i, i, i), n),
    "doc-comments-and-items": lambda n: _rep(lambda i: b'/// Returns item %d.\n///\n/// # Errors\n/// never\npub fn item_%d(x: u32) -> u32 { x + %d }\n\n' % (i, i, i), n) + b'fn f() { info!("x"); }\n',
    "string-table": lambda n: b"const T: &[&str] = &[\n" + _rep(lambda i: b'    "entry %d with some text",\n' % i, n) + b'];\nfn f() { info!("x"); }\n',
    "nested-modules": lambda n: _rep(lambda i: b"mod m%d { pub mod inner { pub fn f() { if true { loop { break; } } } } }\n" % i, n) + b'fn f() { info!("x"); }\n',
    "ignored-statements": lambda n: _rep(lambda i: b'// breadlog:ignore\ninfo!("ignored %d");\n// breadlog:no-kvp\nwarn!("nk %d");\n' % (i, i), n),
    "crlf-statements": lambda n: _rep(lambda i: b'fn f%d() {\r\n    info!("statement %d");\r\n}\r\n' % (i, i), n),
    "corpus-concatenated": lambda n: SIZE_FAMILIES["corpus-concatenated"](n),
}
SCALE_RATIO = 9.0        # instructions(4n) / instructions(n): 4 when linear, 16 when quadratic
SCALE_FLOOR = 1.0e9      # ... and only when the larger input costs real work (user-space instructions; roughly 0.3 s)
MANY_FILES = "many-small-files"      # size = number of 256-byte files spread over 64 directories
CALLGRIND = ("valgrind", "--tool=callgrind", "--callgrind-out-file=/dev/null", "--dump-instr=no", "--collect-jumps=no")
MODES = ((False, True), (True, False), (False, False))      # (structured, check)


def _scale_tree(fam, size):
    if fam == MANY_FILES:
        return {"src/d%02d/f%05d.rs" % (i % 64, i): (b'fn f%d() { info!("statement %d {}", %d); }\n' % (i, i, i)).ljust(255, b" ") + b"\n"
                for i in range(size // 256)}
    return {"src/big.rs": SCALING_FAMILIES[fam](size)}


def _scale_job(args):
    """One shape in one mode at ascending sizes, each run under callgrind, which counts the user-space instructions the process executes: a
    measure that does not depend on machine load, caches or the file system. Stops at the first pair of sizes that decides a violation (the
    next size would cost 16 times more again)."""
    fam, sizes, structured, check, work = args
    out = []
    prev_wall = None
    for size in sizes:
        proj = os.path.join(work, "sc_%s_%d_%d_%d" % (fam, size, structured, check))
        tree = _scale_tree(fam, size)
        tree["Breadlog.yaml"] = cli.config_yaml("./src", use_cache=False, structured=structured)
        cli.write_tree(proj, tree)
        limit = 900 if prev_wall is None else max(900, 40 * prev_wall)
        r = cli.run_breadlog(os.path.join(proj, "Breadlog.yaml"), check=check, cwd=work, tmpdir=work, timeout=limit, wrapper=CALLGRIND)
        shutil.rmtree(proj, ignore_errors=True)
        m = re.search(rb"Collected : (\d+)", r.stderr)
        ir = int(m.group(1)) if m else None
        out.append({"size": size, "ir": ir, "timed_out": r.timed_out, "limit": limit, "signal": r.signal, "exit": r.exit, "wall": r.wall,
                    "panicked": r.panicked, "stderr": r.stderr[-300:].decode("utf-8", "replace")})
        if r.timed_out or ir is None:
            break
        if len(out) >= 2 and out[-2]["ir"] and ir >= SCALE_FLOOR and ir / out[-2]["ir"] >= SCALE_RATIO:
            break
        prev_wall = r.wall
    return fam, structured, check, out


def scaling_family(v, work, tier, pool):
    """Run time on ordinary shapes grows in proportion to the input: the same shape at 4x the size may not execute >= 9x the instructions once
    the work is substantial (a linear implementation measures 4x whatever its constant, n log n about 4.4x, a quadratic one 16x)."""
    sizes = [2 ** 14, 2 ** 16, 2 ** 18] + ([2 ** 20] if tier == "thorough" else [])
    fams = list(SCALING_FAMILIES) + [MANY_FILES]
    jobs = [(fam, sizes, structured, check, work) for fam in fams for structured, check in MODES]
    table = {}
    nruns = 0
    for fam, structured, check, out in pool.imap_unordered(_scale_job, jobs):
        key = "%s/%s/%s" % (fam, "kv" if structured else "msg", "check" if check else "edit")
        table[key] = [o["ir"] for o in out]
        for o in out:
            nruns += 1
            v.count()
            v.distinct(("scale", fam, o["size"], structured, check))
        last = out[-1]
        info = {"family": fam, "mode": "check" if check else "edit", "structured": structured, "sizes": [o["size"] for o in out],
                "instructions": [o["ir"] for o in out]}
        gen_note = ("# python3 -c 'import sys; sys.path[:0]=[\"/verif/lib\",\"/verif/lib/props\"]; import c17; "
                    "sys.stdout.buffer.write(c17.SCALING_FAMILIES[\"%s\"](%d))' > big.rs\n" % (fam, last["size"]) if fam != MANY_FILES else
                    "# %d files of 256 bytes, one unreferenced statement each, in 64 directories\n" % (last["size"] // 256))
        if last["panicked"] or (last["signal"] is not None and not last["timed_out"]):
            v.violation("size:%s:crash" % fam, dict(info, signal=last["signal"], exit=last["exit"], stderr=last["stderr"]), replay_files={"gen.py": gen_note})
        elif last["timed_out"]:
            if len(out) >= 2:
                v.violation("size:%s:super-linear-run-time" % fam,
                            dict(info, what="%d bytes did not finish within %d s under instruction counting, more than 40 times what %d bytes took"
                                 % (last["size"], last["limit"], out[-2]["size"])), replay_files={"gen.py": gen_note})
            else:
                v.violation("size:%s:no-termination-within-%ds@%d-bytes" % (fam, last["limit"], last["size"]), info, replay_files={"gen.py": gen_note})
        elif last["ir"] is None:
            raise MachineryError("callgrind reported no instruction count: %s" % last["stderr"])
        elif len(out) >= 2 and last["ir"] >= SCALE_FLOOR and last["ir"] / out[-2]["ir"] >= SCALE_RATIO:
            v.violation("size:%s:super-linear-run-time" % fam,
                        dict(info, what="%d bytes cost %.2e instructions, %.1f times what %d bytes of the same shape cost"
                             % (last["size"], last["ir"], last["ir"] / out[-2]["ir"], out[-2]["size"])), replay_files={"gen.py": gen_note})
    v.coverage["instructions_by_shape_and_size"] = table
    v.coverage["scaling_worst_ratio"] = round(max((b / a for t in table.values() for a, b in zip(t, t[1:]) if a and b), default=0), 2)
    v.subspace("scaling: %d ordinary shapes x sizes %r x {check/msg, edit/kv, edit/msg}, every run under callgrind (user-space instruction count): "
               "4x the size must stay below %gx the instructions once it reaches %.0e" % (len(fams), sizes, SCALE_RATIO, SCALE_FLOOR), nruns, exhaustive=True)


def run(tier, v):
    paths = vh.cfg_paths()
    work = scratch_dir("c17")
    # (i) every token sequence, in-process, both styles
    maxlen = 5 if tier == "thorough" else 4
    alpha = os.path.join(work, "alphabet.txt")
    with open(alpha, "w") as f:
        for t in SIGMA:
            f.write(vh.esc(t) + "\n")
    outs = vh.run_native("seq", [alpha, maxlen, 1, paths[gen.cfg_index(0, False)], paths[gen.cfg_index(0, True)]])
    n = sum(o["cases"] for o in outs)
    v.count(n)
    v.coverage["distinct_nontrivial"] += sum(o["with_entries"] for o in outs)
    v.subspace("every token sequence of length 1..%d over the 29-token alphabet x {unstructured, structured}, in-process" % maxlen, n,
               exhaustive=True, sequences_with_entries=sum(o["with_entries"] for o in outs), max_parse_us=max(o["max_us"] for o in outs))
    for o in outs:
        for s, p in o["panics"]:
            v.violation(panic_sig(p, s), {"input": s, "panic": p}, replay_files={"case.rs": s})
        for s, p in o["pre_fail"]:
            v.violation("entry-precondition", {"input": s, "detail": p}, replay_files={"case.rs": s})
        for s, us in o["slow"]:
            v.violation("slow-parse", {"input": s, "us": us}, replay_files={"case.rs": s})
    v.sample({"token_sequence": "info!(\"", "note": "one of the enumerated length-4 sequences"})
    # (ii) skeleton statements with all <=1 (thorough <=2) token edits
    pool = multiprocessing.Pool(NCPU)
    specs = []
    for si, sk in enumerate(SKELETONS):
        n1 = sum(1 for _ in edits1(sk))
        for lo in range(0, n1, 400):
            specs.append([(si, 1, lo, lo + 400)])
        if tier == "thorough" and si < 8:
            n2 = n1 * (n1 + 60)   # upper bound; islice stops at the real end
            per = 0
            for e1 in itertools.islice(edits1(sk), 0, None):
                per += sum(1 for _ in edits1(e1))
            for lo in range(0, per, 20000):
                specs.append([(si, 2, lo, lo + 20000)])
    agg = run_nopanic(pool, "c17", "build_skel", specs, paths)
    v.count(agg["n"])
    v.coverage["distinct_nontrivial"] += agg["distinct"]
    v.subspace("14 skeleton statements x every single token edit (delete, duplicate, substitute, insert over the alphabet)%s x style" % (
        "; every pair of edits for the first 8" if tier == "thorough" else ""), agg["n"], exhaustive=True, distinct_inputs=agg["distinct"],
        inputs_with_entries=agg["with_entries"])
    for f in agg["fails"]:
        v.violation(panic_sig(f["detail"], f["code"]) if f["class"] == "panic" else "entry-precondition",
                    {"input": f["code"], "detail": f["detail"]}, replay_files={"case.rs": f["code"]})
    v.sample({"skeleton_edit": "".join(SKELETONS[2][:3] + ["😀"] + SKELETONS[2][3:])})
    # (ii-a) the same skeletons mutated character by character
    specs = []
    for si, sk in enumerate(SKELETONS):
        n1 = sum(1 for _ in char_edits("".join(sk), HAZARD_CHARS))
        for lo in range(0, n1, 4000):
            specs.append([(si, 1, lo, lo + 4000)])
        if tier == "thorough" and si < 6:
            n2 = sum(sum(1 for _ in char_edits(e1, PAIR_CHARS)) for e1 in char_edits("".join(sk), PAIR_CHARS))
            for lo in range(0, n2, 20000):
                specs.append([(si, 2, lo, lo + 20000)])
    agg = run_nopanic(pool, "c17", "build_chars", specs, paths)
    v.count(agg["n"])
    v.coverage["distinct_nontrivial"] += agg["distinct"]
    v.subspace("14 skeleton statements x every single character edit (delete; insert / replace with each of %d hazard characters) at every position%s x style"
               % (len(HAZARD_CHARS), "; every pair of edits over %d characters for the first 6" % len(PAIR_CHARS) if tier == "thorough" else ""),
               agg["n"], exhaustive=True, distinct_inputs=agg["distinct"], inputs_with_entries=agg["with_entries"])
    for f in agg["fails"]:
        v.violation(panic_sig(f["detail"], f["code"]) if f["class"] == "panic" else "entry-precondition",
                    {"input": f["code"], "detail": f["detail"]}, replay_files={"case.rs": f["code"]})
    # (ii-b) window/buffer boundary x UTF-8 alignment sweep
    kmax = 20 if tier == "thorough" else 17
    aspace = list(align_space(kmax))
    agg = run_nopanic(pool, "c17", "build_align", [aspace[i:i + 12] for i in range(0, len(aspace), 12)], paths)
    v.count(agg["n"])
    v.coverage["distinct_nontrivial"] += agg["distinct"]
    v.subspace("alignment sweep: statement preceded by a run of 2-/3-/4-byte characters of length 2^k (k=5..%d) in a comment / a literal / many "
               "short comment lines x ASCII padding 0..3 x style" % kmax, agg["n"], exhaustive=True)
    for f in agg["fails"]:
        v.violation(panic_sig(f["detail"], f["code"]) if f["class"] == "panic" else "entry-precondition",
                    {"input_head": f["code"][:120], "label": repr(f["label"]), "detail": f["detail"][:300]}, replay_files={"case.rs": f["code"]})
    # (iii) real corpora: unmodified + complete single-token-edit neighbourhood of every macro occurrence
    cfiles = [(rel, b) for rel, b in corpus.files(max_bytes=200_000 if tier == "quick" else None)]
    specs = []
    for rel, b in cfiles:
        nn = sum(1 for _ in corpus.neighbourhood_edits(b.decode("utf-8")))
        for lo in range(0, nn, 30):
            specs.append([(rel, lo, lo + 30)])
    agg = run_nopanic(pool, "c17", "build_corpus", specs, paths)
    res = vh.eval_cases([(gen.cfg_index(0, s), b.decode("utf-8")) for rel, b in cfiles for s in (False, True)])
    for (rel, b), r in zip([(rel, b) for rel, b in cfiles for s in (0, 1)], res):
        v.count()
        if r[0] != "ok":
            v.violation(panic_sig(r[1], "") if r[0] == "panic" else "entry-precondition", {"corpus_file": rel, "detail": r[1]})
    v.count(agg["n"])
    v.coverage["distinct_nontrivial"] += agg["distinct"]
    v.subspace("real corpora (Rocket core, fib-rs, Breadlog's src): %d files unmodified + every single-token deletion/duplication within +-2 tokens of "
               "each info!/warn!/error!/info_!/warn_!/error_! occurrence x style" % len(cfiles), agg["n"] + 2 * len(cfiles), exhaustive=True)
    for f in agg["fails"]:
        v.violation(panic_sig(f["detail"], "") if f["class"] == "panic" else "entry-precondition",
                    {"corpus_file": f["label"][0], "edit": f["label"][1], "detail": f["detail"]}, replay_files={"case.rs": f["code"]})
    # CLI: every token sequence of length <= 3 through both modes
    seqs = []
    for L in range(1, 4):
        for t in itertools.product(SIGMA, repeat=L):
            seqs.append("".join(t).encode("utf-8"))
    seqs = sorted(set(seqs))
    jobs = []
    step = 2600
    for st in (False, True):
        for k in range(0, len(seqs), step):
            jobs.append((seqs[k:k + step], st, os.path.join(work, "cli%d_%d" % (st, k)), "b"))
    ncli = 0
    for nfiles, off in pool.imap_unordered(_cli_job, jobs):
        ncli += nfiles
        for b, mode, desc in off:
            v.violation("cli-crash:%s" % mode, {"input": b.decode("utf-8", "replace"), "mode": mode, "what": desc},
                        replay_files={"proj/src/case.rs": b, "proj/Breadlog.yaml": cli.config_yaml("./src", use_cache=False)},
                        replay_cmd="/verif/.build/repo/release/breadlog -c proj/Breadlog.yaml %s; echo exit=$?" % ("--check" if mode == "check" else ""))
    v.count(ncli * 2)
    v.subspace("every token sequence of length <= 3 as a file through --check and edit x style (batches, bisected on crash)", ncli * 2, exhaustive=True)
    # CLI: skeleton edits (quick: first 4 skeletons) and the corpus unmodified
    sk_files = sorted({"".join(e).encode("utf-8") for sk in (SKELETONS if tier == "thorough" else SKELETONS[:5] + SKELETONS[12:13]) for e in edits1(sk)})
    jobs = [(sk_files[k:k + step], st, os.path.join(work, "clisk%d_%d" % (st, k)), "s") for st in (False, True) for k in range(0, len(sk_files), step)]
    # what follows a reported position on its line: k ASCII bytes and then a run of multi-byte characters, for every k (anything that
    # cuts or pads the rest of the line at a fixed width must do so on a character boundary), also for unusable `ref` values
    excerpt = []
    for ch in ("é", "名", "😀"):
        for k in range(0, 72):
            excerpt.append(('fn f() { info!("' + "a" * k + ch * 40 + '"); }\n').encode("utf-8"))
            excerpt.append(('fn f() { info!(ref = ' + "v" * (k + 1) + '; "' + ch * 40 + '"); warn!("x' + ch * 3 + '"); }\n').encode("utf-8"))
    jobs.append((excerpt, False, os.path.join(work, "cliex0"), "e"))
    jobs.append((excerpt, True, os.path.join(work, "cliex1"), "e"))
    jobs.append(([b for _, b in cfiles], False, os.path.join(work, "clicorp0"), "c"))
    jobs.append(([b for _, b in cfiles], True, os.path.join(work, "clicorp1"), "c"))
    n2 = 0
    for nfiles, off in pool.imap_unordered(_cli_job, jobs):
        n2 += nfiles
        for b, mode, desc in off:
            sig = "cli-crash:%s:%s" % (mode, "non-ascii-macro-start" if "char boundary" in desc else "other")
            v.violation(sig, {"input": b.decode("utf-8", "replace")[:500], "mode": mode, "what": desc},
                        replay_files={"proj/src/case.rs": b, "proj/Breadlog.yaml": cli.config_yaml("./src", use_cache=False)},
                        replay_cmd="/verif/.build/repo/release/breadlog -c proj/Breadlog.yaml %s; echo exit=$?" % ("--check" if mode == "check" else ""))
    v.count(n2 * 2)
    v.subspace("single-token edits of skeleton statements, the unmodified corpus files, and the excerpt-alignment family (k = 0..71 ASCII bytes "
               "then 40 two-/three-/four-byte characters after a reported position) through --check and edit x style", n2 * 2, exhaustive=True)
    # (iv) invalid UTF-8, (v) sizes
    utf8_family(v, work)
    size_family(v, work, tier, pool)
    scaling_family(v, work, tier, pool)
    pool.close()
    pool.join()
    v.coverage["rule"] = ("one evaluation = one input text parsed in-process under catch_unwind (panic, entry-list preconditions, parse time) or one "
                          "file run through the release binary in --check or edit mode (exit 101 / abort / signal / timeout = violation); "
                          "non-trivial = inputs on which the parser returns at least one entry, or distinct generated inputs")
