"""C14 — directives affect exactly the statement they precede (E3 + E4)."""
import itertools

import gen
import vh
import clibind
from c10 import chunks

LEVEL = "exploration"

IGN = ["// breadlog:ignore", "//breadlog:ignore", "//   BreadLog:IGNORE  ", "/* breadlog:ignore */", "/*breadlog:ignore*/"]
NOKVP = [s.replace("ignore", "no-kvp").replace("IGNORE", "NO-KVP") for s in IGN]
NOND = ["// note", "// breadlog:ignore please", "// breadlog:ignored", "/// breadlog:ignore", "/* breadlog: ignore */", "// breadlog:no-kvp x"]
BLANK = ["", "   ", "\t"]
CODE = ["let a = 1;"]
LINES = [(s, "ignore") for s in IGN] + [(s, "no-kvp") for s in NOKVP] + [(s, "other") for s in NOND] + \
        [(s, "blank") for s in BLANK] + [(s, "code") for s in CODE]
BLOCKS = [(1,), (2,), (1, 1), (1, 2), (2, 1), (2, 2)]
TRAIL = [None, "same-line", "next-line"]
INDENT = ["", "    "]
MSETS = [0, 3]


def build(spec):
    for seq, bi, tr, trd, eol, style, ind, ms in spec:
        macro = gen.MACRO_SETS[ms][0]
        f = gen.File(style)
        f.raw("fn f() {\n")
        governing = "code"
        for li in seq:
            text, kind = LINES[li]
            f.raw(INDENT[ind] + text + "\n" if kind != "blank" else text + "\n")
            if kind != "blank":
                governing = kind
        k = 0
        block = BLOCKS[bi]
        for n, cnt in enumerate(block):
            f.raw(INDENT[ind])
            for j in range(cnt):
                st = gen.Stmt(macro=macro, kvs=(["a = 1"] if k % 2 else []), msg="m%d" % k)
                k += 1
                f.stmt(st, ignored=(governing == "ignore"), no_kvp=(governing == "no-kvp"))
                f.raw(";" if j == cnt - 1 else "; ")
            last = n == len(block) - 1
            if last and TRAIL[tr] == "same-line":
                f.raw(" " + (IGN if trd == 0 else NOKVP)[0])
            f.raw("\n")
            governing = "code"      # the next statement line is preceded by a code line
            if last and TRAIL[tr] == "next-line":
                f.raw(INDENT[ind] + (IGN if trd == 0 else NOKVP)[0] + "\n")
        f.raw("}\n")
        code, exp = f.build(crlf=eol)
        yield gen.cfg_index(ms, style), code, exp, (seq, bi, tr, trd, eol, style, ind, ms)


def space(tier):
    full_len = 3 if tier == "thorough" else 2
    for L in range(0, full_len + 1):
        for seq in itertools.product(range(len(LINES)), repeat=L):
            for bi, tr, eol, style, ind, ms in itertools.product(range(len(BLOCKS)), range(len(TRAIL)), (0, 1), (0, 1), (0, 1), MSETS):
                for trd in ((0, 1) if tr else (0,)):
                    yield (seq, bi, tr, trd, eol, bool(style), ind, ms)
    # one more line of depth with the other dimensions reduced
    L = full_len + 1
    for seq in itertools.product(range(len(LINES)), repeat=L):
        for bi in (0, 4):
            for style in (False, True):
                yield (seq, bi, 0, 0, 0, style, 1, 0)


def classify(f):
    seq, bi, tr, trd, eol, style, ind, ms = f["label"]
    if f["class"] == "panic":
        return "panic:" + ("non-ascii-macro" if ms == 3 else "other")
    tags = []
    if ms == 3:
        tags.append("non-ascii-macro")
    kinds = [LINES[i][1] for i in seq if LINES[i][1] != "blank"]
    tags.append("governing=" + (kinds[-1] if kinds else "none"))
    if tr:
        tags.append("trailing-" + TRAIL[tr])
    return "%s:%s:%s" % ("structured" if style else "unstructured", f["class"], "+".join(tags))


def run(tier, v):
    pool = vh.Pool()
    agg = pool.run("c14", "build", chunks(space(tier), 4000))
    pool.close()
    v.count(agg["n"])
    v.coverage["distinct_nontrivial"] += agg["distinct"]
    v.subspace("all sequences of 0..%d lines from {5 ignore spellings, 5 no-kvp spellings, 6 non-directives, 3 blank lines, code} before statement "
               "blocks {1,2,1+1,1+2,2+1,2+2 statements} x trailing directive {none,same line,next line} x eol x style x indentation x macro set; "
               "plus length %d with the other dimensions reduced" % (3 if tier == "thorough" else 2, 4 if tier == "thorough" else 3),
               agg["n"], exhaustive=True, files_with_statements_expected=agg["nonvacuous"])
    for s in agg["samples"]:
        v.sample({"file": s[0], "expected_entries": s[1]})
    for f in agg["fails"]:
        v.violation(classify(f), {"file": f["code"], "class": f["class"], "detail": f["detail"], "expected": f["expected"], "got": f["got"]},
                    replay_files={"case.rs": f["code"]})
    tuples = [t for t in space("quick") if len(t[0]) <= 1 and t[4] == 0]
    nb, nf = clibind.bind(tuples, lambda t: next(build([t])), v)
    v.subspace("CLI pass over the sequences of length <= 1 (LF): --check report and edit diff equal the in-process entries", nb)
    v.coverage["rule"] = ("one evaluation = one generated file (comment/blank/code lines, then statement lines) parsed by the real finder; model: a "
                          "statement is skipped / kept unstructured iff the nearest non-blank line above its line is exactly a directive comment")
