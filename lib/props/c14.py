"""C14 — directives affect exactly the statement they precede (E3 + E4)."""
import itertools

import gen
import vh
import clibind
from c10 import chunks

LEVEL = "exploration"

IGN = ["// breadlog:ignore", "//breadlog:ignore", "//   BreadLog:IGNORE  ", "/* breadlog:ignore */", "/*breadlog:ignore*/",
       # white space that is not ASCII (a no-break space typed by accident, an ideographic space): still "surrounding whitespace"
       "//\u00a0breadlog:ignore", "/*\u3000breadlog:ignore\u3000*/"]
NOKVP = [s.replace("ignore", "no-kvp").replace("IGNORE", "NO-KVP") for s in IGN]
NOND = ["// note", "// breadlog:ignore please", "// breadlog:ignored", "/// breadlog:ignore", "/* breadlog: ignore */", "// breadlog:no-kvp x",
        # other text that is not ASCII
        "// breadlog:ignore ✓", "/* ⚠ breadlog:ignore */", "// breadlog:ignore…", "// breadlog:no-kvp （無視）", "// ｂreadlog:ignore"]
BLANK = ["", "   ", "\t"]
CODE = ["let a = 1;"]
# a directive comment that trails code on the nearest non-blank line before the statement is still "a comment on that line"
TRAILING_ON_CODE = [("let a = 1; // breadlog:ignore", "ignore"), ("let a = 1; /* breadlog:no-kvp */", "no-kvp"),
                    ("let c = '\"'; // breadlog:ignore", "ignore"), ("let s = \"t\"; // breadlog:no-kvp", "no-kvp"),
                    ("let s = \"first\n        second\"; // breadlog:ignore", "ignore"), ("let a = 1; // breadlog:ignore x", "other")]
LINES = [(s, "ignore") for s in IGN] + [(s, "no-kvp") for s in NOKVP] + [(s, "other") for s in NOND] + \
        [(s, "blank") for s in BLANK] + [(s, "code") for s in CODE] + TRAILING_ON_CODE
BLOCKS = [(1,), (2,), (1, 1), (1, 2), (2, 1), (2, 2)]
TRAIL = [None, "same-line", "next-line"]
INDENT = ["", "    "]
MSETS = [0, 3]


PAREN_GAPS = ["", "\n        "]      # the statement split after its `!`: it still starts on the line of its name
LINE_PREFIXES = ["", '"quit" => ', "'q' => ", 'r#"a"b"# => ']     # code (a literal pattern of a match arm) before the statement on its own line


def build(spec):
    for seq, bi, tr, trd, eol, style, ind, ms in spec:
        pg = px = 0
        if isinstance(ms, tuple):
            ms, pg, px = ms
        macro = gen.MACRO_SETS[ms][0]
        f = gen.File(style)
        f.raw("fn f() {\n")
        governing = "code"
        for li in seq:
            text, kind = LINES[li]
            f.raw(INDENT[ind] + text + "\n" if kind != "blank" else text + "\n")
            if kind != "blank":
                governing = kind
        k = 0
        block = BLOCKS[bi]
        for n, cnt in enumerate(block):
            f.raw(INDENT[ind] + LINE_PREFIXES[px])
            for j in range(cnt):
                st = gen.Stmt(macro=macro, kvs=(["a = 1"] if k % 2 else []), msg="m%d" % k, paren_gap=PAREN_GAPS[pg])
                k += 1
                f.stmt(st, ignored=(governing == "ignore"), no_kvp=(governing == "no-kvp"))
                f.raw(";" if j == cnt - 1 else "; ")
            last = n == len(block) - 1
            if last and TRAIL[tr] == "same-line":
                f.raw(" " + (IGN if trd == 0 else NOKVP)[0])
            f.raw("\n")
            governing = "code"      # the next statement line is preceded by a code line
            if last and TRAIL[tr] == "next-line":
                f.raw(INDENT[ind] + (IGN if trd == 0 else NOKVP)[0] + "\n")
        f.raw("}\n")
        code, exp = f.build(crlf=eol)
        yield gen.cfg_index(ms, style), code, exp, (seq, bi, tr, trd, eol, style, ind, ms if not (pg or px) else (ms, pg, px))


def space(tier):
    full_len = 3 if tier == "thorough" else 2
    for L in range(0, full_len + 1):
        for seq in itertools.product(range(len(LINES)), repeat=L):
            for bi, tr, eol, style, ind, ms in itertools.product(range(len(BLOCKS)), range(len(TRAIL)), (0, 1), (0, 1), (0, 1), MSETS):
                for trd in ((0, 1) if tr else (0,)):
                    yield (seq, bi, tr, trd, eol, bool(style), ind, ms)
    # statements split after the bang, under every single governing line
    for L in (0, 1):
        for seq in itertools.product(range(len(LINES)), repeat=L):
            # (one statement per line only: with two on a line the second would start on the line of the first one's parenthesis)
            for bi, style, ind in itertools.product((0, 2), (0, 1), (0, 1)):
                yield (seq, bi, 0, 0, 0, bool(style), ind, (0, 1, 0))
            # ... and statements with a literal before them on their own line (all block shapes: they share the line)
            for bi, style, px in itertools.product(range(len(BLOCKS)), (0, 1), (1, 2, 3)):
                yield (seq, bi, 0, 0, 0, bool(style), 1, (0, 0, px))
                if bi in (0, 2):
                    yield (seq, bi, 0, 0, 0, bool(style), 1, (0, 1, px))
    # one more line of depth with the other dimensions reduced
    L = full_len + 1
    for seq in itertools.product(range(len(LINES)), repeat=L):
        for bi in (0, 4):
            for style in (False, True):
                yield (seq, bi, 0, 0, 0, style, 1, 0)


def classify(f):
    seq, bi, tr, trd, eol, style, ind, ms = f["label"]
    split = isinstance(ms, (tuple, list))
    prefixed = split and len(ms) > 2 and ms[2]
    if split:
        split = bool(ms[1])
        ms = ms[0]
    if f["class"] == "panic":
        return "panic:" + ("non-ascii-macro" if ms == 3 else "other")
    tags = []
    if ms == 3:
        tags.append("non-ascii-macro")
    kinds = [LINES[i][1] for i in seq if LINES[i][1] != "blank"]
    tags.append("governing=" + (kinds[-1] if kinds else "none"))
    if tr:
        tags.append("trailing-" + TRAIL[tr])
    if split:
        tags.append("split-after-bang")
    if prefixed:
        tags.append("literal-before-statement-on-its-line")
    return "%s:%s:%s" % ("structured" if style else "unstructured", f["class"], "+".join(tags))


def run(tier, v):
    pool = vh.Pool()
    agg = pool.run("c14", "build", chunks(space(tier), 4000))
    pool.close()
    v.count(agg["n"])
    v.coverage["distinct_nontrivial"] += agg["distinct"]
    v.subspace("all sequences of 0..%d lines from {7 ignore spellings, 7 no-kvp spellings (2 padded with non-ASCII white space), 11 non-directives (5 with non-ASCII extra text), 3 blank lines, code, 6 code lines with a trailing comment} before statement "
               "blocks {1,2,1+1,1+2,2+1,2+2 statements} x trailing directive {none,same line,next line} x eol x style x indentation x macro set; "
               "plus length %d with the other dimensions reduced" % (3 if tier == "thorough" else 2, 4 if tier == "thorough" else 3),
               agg["n"], exhaustive=True, files_with_statements_expected=agg["nonvacuous"])
    for s in agg["samples"]:
        v.sample({"file": s[0], "expected_entries": s[1]})
    for f in agg["fails"]:
        v.violation(classify(f), {"file": f["code"], "class": f["class"], "detail": f["detail"], "expected": f["expected"], "got": f["got"]},
                    replay_files={"case.rs": f["code"]})
    # order independence: a directive (or its absence) in one file must not leak into the next file parsed by the same process
    oi_cases = []
    oi_exp = []
    for li in range(len(LINES)):
        for ind in (0, 1):
            for style in (False, True):
                for bi in (0, 1):
                    ci, code, exp, _ = next(build([((li,), bi, 0, 0, 0, style, ind, 0)]))
                    oi_cases.append((ci, code))
                    oi_exp.append(exp)
    import multiprocessing
    with multiprocessing.Pool(vh.NCPU) as p2:
        bad = vh.order_independence(oi_cases, p2)
    v.count(len(oi_cases) ** 2)
    v.subspace("order independence in-process: every ordered pair (A, B) of %d single-directive-line files: entries for B right after A == "
               "entries for B in a fresh process" % len(oi_cases), len(oi_cases) ** 2)
    for a_idx, b_idx, want, got in bad[:200]:
        v.violation("result-depends-on-previously-parsed-file", {"previous_file": oi_cases[a_idx][1], "file": oi_cases[b_idx][1], "alone": repr(want)[:300],
                                                                 "after_previous": repr(got)[:300]},
                    replay_files={"previous.rs": oi_cases[a_idx][1], "case.rs": oi_cases[b_idx][1]})
    # ... and through the CLI: two-file trees in both orders for every pair of equally long directive / non-directive lines
    import cli as _cli
    import os as _os
    import shutil as _sh
    from vcommon import scratch_dir as _sd
    work = _sd("c14pairs")
    npairs = 0
    by_len = {}
    for i, (c, e) in enumerate(zip(oi_cases, oi_exp)):
        by_len.setdefault((c[0], len(c[1].encode())), []).append(i)
    for (ci, _l), idxs in sorted(by_len.items()):
        for a in idxs:
            for b in idxs:
                if a == b:
                    continue
                proj = _os.path.join(work, "p%d" % npairs)
                npairs += 1
                _cli.write_tree(proj, {"src/a.rs": oi_cases[a][1], "src/b.rs": oi_cases[b][1],
                                       "Breadlog.yaml": _cli.config_yaml("./src", structured=(ci % 2 == 1), use_cache=False)})
                r = _cli.run_breadlog(_os.path.join(proj, "Breadlog.yaml"), check=True, cwd=work, tmpdir=work, timeout=30)
                rep = _cli.Report(r.stdout, names=["a.rs", "b.rs"], src=_os.path.join(proj, "src"), err=r.stderr)
                for name, k in (("a.rs", a), ("b.rs", b)):
                    want = sum(1 for e in oi_exp[k] if e[0] == "N" or (e[0] == "S" and e[2] is None))
                    got = sum(1 for f, _, _ in rep.missing if _os.path.basename(f) == name)
                    if want != got:
                        v.violation("result-depends-on-previously-parsed-file:cli", {"tree": {"a.rs": oi_cases[a][1], "b.rs": oi_cases[b][1]}, "file": name,
                                                                                     "expected_missing": want, "reported_missing": got},
                                    replay_files={"proj/src/a.rs": oi_cases[a][1], "proj/src/b.rs": oi_cases[b][1],
                                                  "proj/Breadlog.yaml": _cli.config_yaml("./src", structured=(ci % 2 == 1), use_cache=False)},
                                    replay_cmd="/verif/.build/repo/release/breadlog -c proj/Breadlog.yaml --check")
                _sh.rmtree(proj, ignore_errors=True)
    v.count(npairs)
    v.subspace("order independence through --check: two-file trees, every ordered pair of equally long single-directive-line files", npairs)
    # cross-feature product (in-process against the model, and through the CLI)
    import spaces
    cross = list(spaces.cross_feature_product())
    res = vh.eval_cases([(c[0], c[1]) for c in cross])
    for (ci, code, lab), r in zip(cross, res):
        v.count()
        m = gen.compare(code, lab[2], r)
        if m:
            v.violation("cross-feature:%s" % m[0], {"file": code, "features": repr(lab[1]), "detail": m[1], "expected": repr(lab[2])[:300], "got": repr(r)[:300]},
                        replay_files={"case.rs": code})
    nbx, nfx = clibind.bind(cross, lambda k: (k[0], k[1], k[2][2], k[2][1]), v)
    v.subspace("cross-feature product: directive x target x key-values{none, a = 1, ref = 5, ref = x} x eol x layout x second statement on the same line x "
               "position in the file x style (model + CLI)", len(cross) + nbx)
    tuples = [t for t in space("quick") if len(t[0]) <= 1 and t[4] == 0]
    nb, nf = clibind.bind(tuples, lambda t: next(build([t])), v)
    v.subspace("CLI pass over the sequences of length <= 1 (LF): --check report and edit diff equal the in-process entries", nb)
    v.coverage["rule"] = ("one evaluation = one generated file (comment/blank/code lines, then statement lines) parsed by the real finder; model: a "
                          "statement is skipped / kept unstructured iff the nearest non-blank line above its line is exactly a directive comment")
