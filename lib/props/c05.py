"""C05 — check mode's verdict is exact and predicts what edit mode does (E4 differential)."""
import os

import cli
import difftree
import spaces

LEVEL = "exploration"


def families(tier):
    yield "C10 core product (every %s case)" % ("7th" if tier == "quick" else "2nd"), spaces.c10_core(7 if tier == "quick" else 2)
    yield "C10 layouts: every filler at every gap site x target x key-values x style", spaces.c10_layouts()
    yield "file-start variants (BOM, BOM+CRLF, shebang, inner attribute) x bodies x eol x style", spaces.file_start_variants()
    yield "statement-kind tuples: 2..%d statements of 7 kinds x directives in one file x style" % (3 if tier == "thorough" else 2), spaces.statement_kind_tuples(3 if tier == "thorough" else 2)
    yield "cross-feature product: directive x target x key-values x eol x layout x second statement on the line x position x style", spaces.cross_feature_product()
    yield "far positions: column / line number at 255..257, 65535..65537, 200000", spaces.far_positions()
    yield "gap sweep: 2-3 statements separated by 4 KiB / 8 KiB / 64 KiB / 128 KiB / 1 MiB (+-1 byte)", spaces.gap_sweep()
    yield "size-boundary sweep: file size and insertion offset within 3 of 2^9..2^17", spaces.size_boundary_sweep()
    yield "odd characters (NUL, lone CR, VT, FF, NEL, LS, PS, LRM, ZWSP, DEL, NBSP, combining) at 7 places", spaces.odd_characters()
    yield "C13 structured ref states (default layout)", spaces.c13_default_layout(tier)
    yield "C14 directive placements (length <= 1)", spaces.c14_short()
    yield "C11 decoy sequences (length <= 2)", spaces.c11_short(2)
    import itertools
    yield "trees mixing unreadable (invalid UTF-8) files with readable ones: C14 placements interleaved with 108 invalid files", itertools.chain(spaces.c14_short(), spaces.invalid_utf8_files())
    yield "multi-insertion family", spaces.multi_insertion(big_counts=(1000, 2000) if tier == "thorough" else ())
    yield "token sequences of length <= %d" % (3 if tier == "thorough" else 2), spaces.token_sequences(3 if tier == "thorough" else 2)
    yield "real corpora%s" % (" + single-token-edit neighbourhoods" if tier == "thorough" else ""), spaces.corpus_files(tier == "thorough", None if tier == "thorough" else 200_000)
    if tier == "thorough":
        yield "C10 all pairs", spaces.c10_pairs()


def judge_tree(tr, v, fam):
    """The C05 oracle on one tree."""
    if tr.crashed:
        v.violation("cli-crash:%s" % tr.crashed[0], {"family": fam, "what": tr.crashed[1], "stderr": tr.crashed[2]})
        return
    n_tokens = 0
    judged = tr.edit1.exit == 0
    for fr in tr.files:
        v.count()
        strip = cli.token_strip(fr.orig, fr.after1)
        try:
            fr.orig.decode("utf-8")
        except UnicodeDecodeError:
            # an unreadable file: skipped by both modes; nothing may be reported for it and nothing inserted
            if fr.check_positions or fr.after1 != fr.orig:
                v.violation("unreadable-file-reported-or-edited", {"family": fam, "reported": fr.check_positions, "changed": fr.after1 != fr.orig})
            continue
        if strip is None:
            v.violation("edit-not-token-only", {"family": fam, "file": fr.orig.decode("utf-8", "replace")[:600], "after": fr.after1.decode("utf-8", "replace")[:600]},
                        replay_files={"case.rs": fr.orig})
            continue
        n_tokens += len(strip)
        if strip:
            v.distinct(hash(fr.orig))
        if not judged:
            continue
        want = sorted(cli.line_col(fr.orig, off) for off, _ in strip)
        if want != fr.check_positions:
            v.violation("check-positions-differ-from-edit-insertions:%s" % classify(fr, want), {
                "family": fam, "file": fr.orig.decode("utf-8", "replace")[:800], "check_reported": fr.check_positions,
                "edit_inserted_at(line,col)": want, "label": repr(fr.label)[:200]}, replay_files={"case.rs": fr.orig})
    if not judged:
        v.notes.append("tree of family %r not judged: edit run exited %r" % (fam, tr.edit1.exit)) if len(v.notes) < 30 else None
        return
    total = tr.rep_check1.total
    if total is None:
        total = len(tr.rep_check1.missing)      # no recognisable grand-total line: count the per-statement reports instead
    if total != n_tokens:
        v.violation("grand-total-differs", {"family": fam, "check_total": total, "tokens_inserted": n_tokens})
    if tr.rep_edit1.inserted is not None and tr.rep_edit1.inserted != n_tokens:
        v.violation("edit-printed-count-differs", {"family": fam, "printed": tr.rep_edit1.inserted, "tokens_inserted": n_tokens})
    if tr.rep_edit1.inserted is None and n_tokens:
        v.violation("edit-printed-no-count", {"family": fam, "tokens_inserted": n_tokens})
    if (tr.check1.exit != 0) != (n_tokens > 0):
        v.violation("check-exit-status-wrong", {"family": fam, "check_exit": tr.check1.exit, "tokens_inserted": n_tokens, "check_total": total})


def classify(fr, want):
    got = fr.check_positions
    if len(got) != len(want):
        return "count"
    if [l for l, _ in got] != [l for l, _ in want]:
        return "line"
    return "column"


def run_walk_faults(tier, v):
    """E1, check mode: a directory that cannot be opened / listed hides the files below it and nothing else; every statement without a
    reference in a file the walk can still reach is reported and the run fails."""
    import c01
    import cli
    import fsx
    ex = fsx.Explorer()
    outcomes = set()

    def oracle(sc, base, x):
        v.count()
        orig = sc.source_bytes()
        bad_dirs = [o.path[len("$R0/src"):].lstrip("/") for o in x.trace if o.op in ("opendir", "readdir") and o.errno != 0 and o.path.startswith("$R0/src")]
        reachable = [f for f in orig if not any(d == "" or f.startswith(d + "/") for d in bad_dirs)]
        rep = cli.Report(x.stdout, names=list(orig), err=x.stderr)
        reported = {f.split("/src/", 1)[-1] for f, _, _ in rep.missing}
        v.distinct((sc.name, fsx.plan_str(x.plan)))
        outcomes.add((x.exit, len(reachable), len(rep.missing)))
        bad = []
        if x.timed_out or x.signal is not None:
            bad.append("abnormal-termination")
        if x.src != orig:
            bad.append("check-run-changed-a-file")
        if reachable and x.exit == 0:
            bad.append("exit0-although-reachable-statements-lack-references")
        if rep.total is not None and rep.total < len(reachable):
            bad.append("fewer-statements-reported-than-reachable-files-hold")
        if not set(reachable) <= reported:
            bad.append("reachable-file-not-reported")
        for b_ in bad:
            v.violation("%s:walk-fault:%s" % (b_, "+".join(sorted({o.op for o in x.trace if o.errno != 0 and o.op in ("opendir", "readdir")})) or "none"),
                        {"scenario": sc.name, "plan": fsx.plan_str(x.plan), "exit": x.exit, "reported_total": rep.total, "reported_files": sorted(reported), "reachable": sorted(reachable),
                         "unlistable": bad_dirs, "stdout": x.stdout.decode("utf-8", "replace")[-1500:]},
                        replay_files={"proj/src/" + f: b for f, b in orig.items()},
                        replay_cmd="apply the fault plan with the fsx shim (FSX_PLAN=%s) on a --check run of this tree" % fsx.plan_str(x.plan))

    scs = [s for s in c01.walk_fault_scenarios() if "-lock" not in s.name and "-asc" in s.name]
    if tier != "thorough":
        scs = [s for s in scs if s.name.startswith(("W1", "W3"))]
    nexec = 0
    for sc in scs:
        sc.check = True
        _, n, _ = ex.explore(sc, {"fail"}, 2 if tier == "thorough" else 1, oracle, op_filter=lambda o, depth, x: o.op in ("opendir", "readdir"))
        nexec += n + 1
    ex.close()
    v.subspace("walk faults (check mode): %d trees with 1-3 sub-directories x style x creation order; every opendir/readdir of the walk fails, %s"
               % (len(scs), "all pairs" if tier == "thorough" else "one fault per run"), nexec, exhaustive=True)
    v.coverage["walk_fault_distinct_outcomes(exit, reachable files, reported)"] = len(outcomes)


def run_timestamps(tier, v):
    """What --check reports is what an edit run does, whatever the files' timestamps say: sources older / newer than the lock file (a tree
    restored with `cp -p`, `tar x`, `rsync -a`; a clock that went backwards), lock present or not."""
    import itertools
    import shutil
    import scenarios
    from vcommon import scratch_dir
    work = scratch_dir("c05ts")
    files = {"a.rs": scenarios.A_MISSING, "b.rs": scenarios.B_COMPLETE, "c.rs": scenarios.C_MIXED, "d/e.rs": 'fn e() { info!("deep"); }\n'}
    T = {"2001": 978307200, "now": None, "2037": 2114380800}
    n = 0
    for src_t, lock_t, lock, structured, mode_bits in itertools.product(T, T, (None, 8, 100), (False, True), (0o644, 0o444, 0o755)):
        if lock is None and lock_t != "now":
            continue
        if mode_bits != 0o644 and (src_t, lock_t) not in (("now", "now"), ("2001", "now")):
            continue
        res = {}
        for mode in ("check", "edit"):
            proj = os.path.join(work, "p%d_%s" % (n, mode))
            tree = {"src/" + k: val for k, val in files.items()}
            tree["Breadlog.yaml"] = cli.config_yaml("./src", structured=structured)
            if lock is not None:
                tree["Breadlog.lock"] = cli.lock_yaml(lock)
            cli.write_tree(proj, tree)
            for k in files:
                os.chmod(os.path.join(proj, "src", k), mode_bits)
                if T[src_t]:
                    os.utime(os.path.join(proj, "src", k), (T[src_t], T[src_t]))
            if lock is not None and T[lock_t]:
                os.utime(os.path.join(proj, "Breadlog.lock"), (T[lock_t], T[lock_t]))
            r = cli.run_breadlog(os.path.join(proj, "Breadlog.yaml"), check=(mode == "check"), cwd=work, tmpdir=work, timeout=60)
            after = cli.read_tree(os.path.join(proj, "src"))
            res[mode] = (r, after)
            shutil.rmtree(proj, ignore_errors=True)
        n += 1
        v.count()
        v.distinct(("timestamps", src_t, lock_t, lock, structured, mode_bits))
        rc, _ = res["check"]
        re_, after = res["edit"]
        rep = cli.Report(rc.stdout, names=list(files), err=rc.stderr)
        inserted = {}
        ok = True
        for k, orig in files.items():
            st = cli.token_strip(orig.encode(), after.get(k, b""))
            if st is None:
                ok = False
            else:
                inserted[k] = len(st)
        reported = {}
        for f, _, _ in rep.missing:
            k = f.split("/src/", 1)[-1]
            reported[k] = reported.get(k, 0) + 1
        info = {"sources_mtime": src_t, "lock_mtime": lock_t, "sources_mode": oct(mode_bits), "lock": lock, "structured": structured, "check_exit": rc.exit, "edit_exit": re_.exit,
                "reported": reported, "inserted": inserted}
        if rc.panicked or re_.panicked or rc.signal is not None or re_.signal is not None:
            v.violation("cli-crash:timestamps", info)
        elif not ok:
            v.violation("not-token-only:timestamps", info)
        elif {k: c for k, c in inserted.items() if c} != reported:
            v.violation("check-report-differs-from-edit-insertions:timestamps", info)
        elif (rc.exit == 0) != (sum(inserted.values()) == 0):
            v.violation("check-exit-does-not-predict-edit:timestamps", info)
    v.subspace("file metadata: source mtime {2001, now, 2037} x lock file mtime {2001, now, 2037} x lock {absent, 8, 100} x style, and source mode {0644, 0444, 0755}: --check report == insertions of an "
               "edit run on a copy with the same timestamps", n, exhaustive=True)


def run_id_range_edge(tier, v):
    """At the top of the ID range: what --check reports, what the edit run inserts and what it prints as its count still agree."""
    import itertools
    import shutil
    from vcommon import scratch_dir
    U32 = 0xFFFFFFFF
    work = scratch_dir("c05edge")
    n = 0
    for top, missing, lock, structured, split in itertools.product((U32 - 3, U32 - 2, U32 - 1), (1, 2, 3), ("absent", "next", "disabled"), (False, True), (False, True)):
        def st(i, ref):
            if structured:
                return 'fn f%d() { info!(%sk = %d; "m%d"); }\n' % (i, "ref = %d, " % ref if ref else "", i, i)
            return 'fn f%d() { info!("%sm%d"); }\n' % (i, "[ref: %d] " % ref if ref else "", i)
        stmts = [st(0, top - 1), st(1, top)] + [st(2 + i, None) for i in range(missing)]
        files = {"a.rs": "".join(stmts)} if not split else {"a.rs": "".join(stmts[:2]), "b.rs": "".join(stmts[2:])}
        res = {}
        for mode in ("check", "edit"):
            proj = os.path.join(work, "p%d_%s" % (n, mode))
            tree = {"src/" + k: val for k, val in files.items()}
            tree["Breadlog.yaml"] = cli.config_yaml("./src", structured=structured, use_cache=(False if lock == "disabled" else None))
            if lock == "next":
                tree["Breadlog.lock"] = cli.lock_yaml(top + 1)
            cli.write_tree(proj, tree)
            r = cli.run_breadlog(os.path.join(proj, "Breadlog.yaml"), check=(mode == "check"), cwd=work, tmpdir=work, timeout=60)
            res[mode] = (r, cli.read_tree(os.path.join(proj, "src")))
            shutil.rmtree(proj, ignore_errors=True)
        n += 1
        v.count()
        rc, _ = res["check"]
        re_, after = res["edit"]
        info = {"top_id": top, "missing": missing, "lock": lock, "structured": structured, "two_files": split, "check_exit": rc.exit, "edit_exit": re_.exit}
        if rc.panicked or re_.panicked or rc.signal is not None or re_.signal is not None:
            v.violation("cli-crash:id-range-edge", info)
            continue
        tokens = 0
        ok = True
        for k, orig in files.items():
            stp = cli.token_strip(orig.encode(), after.get(k, b""))
            if stp is None:
                ok = False
            else:
                tokens += len(stp)
        repc, repe = cli.Report(rc.stdout), cli.Report(re_.stdout)
        info.update(check_total=repc.total, tokens_inserted=tokens, printed_count=repe.inserted)
        v.distinct(("id-edge", top, missing, lock, structured, split))
        if not ok:
            v.violation("not-token-only:id-range-edge", info)
        elif re_.exit == 0:
            # the range sufficed: the edit did what the check announced, and says so
            if repc.total is not None and repc.total != tokens:
                v.violation("grand-total-differs:id-range-edge", info)
            if repe.inserted is not None and repe.inserted != tokens:
                v.violation("edit-run-printed-count-differs-from-tokens-inserted:id-range-edge", info)
            if rc.exit == 0 and tokens:
                v.violation("check-exit-does-not-predict-edit:id-range-edge", info)
    v.subspace("ID-range edge: largest existing ID in {2^32-4, 2^32-3, 2^32-2} x 1..3 unreferenced statements x lock {absent, exact, disabled} x style x {one file, "
               "two files}: --check total == tokens inserted == count printed by the edit run (when the range suffices)", n, exhaustive=True)


def run_large_files(tier, v):
    """Large files are read like small ones: every statement of a 256 KiB / 1 MiB / 4 MiB (thorough: 16 MiB) file is reported by --check and
    referenced by the edit run - nothing is silently dropped because a file is big."""
    import shutil
    from vcommon import scratch_dir
    work = scratch_dir("c05big")
    sizes = [2 ** 18, 2 ** 20, 2 ** 22] + ([2 ** 24] if tier == "thorough" else [])
    n = 0
    for size in sizes:
        for structured in (False, True):
            line = 'fn f%06d() { info!("statement %d {}", %d); warn!(a = %d; "w"); }\n'
            nlines = size // 70
            text = "".join(line % (i, i, i, i) for i in range(nlines))
            want = 2 * nlines
            res = {}
            for mode in ("check", "edit"):
                proj = os.path.join(work, "b%d_%s" % (n, mode))
                cli.write_tree(proj, {"src/big.rs": text, "src/small.rs": ('fn s() { info!(ref = 1; "has one"); }\n' if structured else 'fn s() { info!("[ref: 1] has one"); }\n'),
                                      "Breadlog.yaml": cli.config_yaml("./src", structured=structured, use_cache=False)})
                r = cli.run_breadlog(os.path.join(proj, "Breadlog.yaml"), check=(mode == "check"), cwd=work, tmpdir=work, timeout=1800)
                after = open(os.path.join(proj, "src", "big.rs"), "rb").read()
                res[mode] = (r, after)
                shutil.rmtree(proj, ignore_errors=True)
            n += 1
            v.count()
            v.distinct(("large-file", size, structured))
            rc, _ = res["check"]
            re_, after = res["edit"]
            import re as _re
            m = _re.search(rb"Total missing references \(all files\): ([0-9]+)", rc.stdout)
            total = int(m.group(1)) if m else None
            inserted = len(_re.findall(rb"\[ref: [0-9]+\] statement|\[ref: [0-9]+\] w\"|ref = [0-9]+(?:u32)?[;,] ", after))
            m2 = _re.search(rb"Num\. inserted reference\(s\): ([0-9]+)", re_.stdout)
            printed = int(m2.group(1)) if m2 else None
            info = {"bytes": len(text), "statements": want, "structured": structured, "check_exit": rc.exit, "check_total": total, "edit_exit": re_.exit,
                    "tokens_inserted": inserted, "printed_count": printed}
            if rc.panicked or re_.panicked or rc.signal is not None or re_.signal is not None or rc.timed_out or re_.timed_out:
                v.violation("cli-crash:large-file", info)
            elif total != want or rc.exit == 0:
                v.violation("large-file:statements-not-reported-by-check", info)
            elif re_.exit == 0 and (inserted != want or (printed is not None and printed != want)):
                v.violation("large-file:statements-not-referenced-by-edit", info)
            elif re_.exit != 0:
                v.violation("large-file:edit-run-failed", info)
    v.subspace("large files: %r bytes of two-statement lines x style: --check total == statements == tokens inserted == printed count" % sizes, n, exhaustive=True)


def run(tier, v):
    run_large_files(tier, v)
    run_walk_faults(tier, v)
    run_id_range_edge(tier, v)
    run_timestamps(tier, v)
    for name, it in families(tier):
        cases, dropped = difftree.prefilter(list(it))
        n = 0
        for tr in difftree.run_trees(cases, steps=2):
            judge_tree(tr, v, name)
            n += len(tr.files)
        v.subspace(name, n, exhaustive=True, dropped_because_parser_panics=dropped)
    # multi-file trees with nested directories are what run_trees builds (files spread over src/ and src/d0..d2): totals add up across files
    v.sample({"family": "C10 core", "oracle": "sorted (line,col) from --check == sorted line/col of the byte offsets where the edit run inserted tokens"})
    v.coverage["rule"] = ("one evaluation = one file inside a project tree run through --check and then through edit; positions are recomputed from "
                          "byte offsets (1-based, characters, lines end at \\n); distinct = distinct files that received at least one insertion")
