"""C05 — check mode's verdict is exact and predicts what edit mode does (E4 differential)."""
import cli
import difftree
import spaces

LEVEL = "exploration"


def families(tier):
    yield "C10 core product (every %s case)" % ("7th" if tier == "quick" else "2nd"), spaces.c10_core(7 if tier == "quick" else 2)
    yield "C10 layouts: every filler at every gap site x target x key-values x style", spaces.c10_layouts()
    yield "file-start variants (BOM, BOM+CRLF, shebang, inner attribute) x bodies x eol x style", spaces.file_start_variants()
    yield "statement-kind tuples: 2..%d statements of 7 kinds x directives in one file x style" % (3 if tier == "thorough" else 2), spaces.statement_kind_tuples(3 if tier == "thorough" else 2)
    yield "cross-feature product: directive x target x key-values x eol x layout x second statement on the line x position x style", spaces.cross_feature_product()
    yield "far positions: column / line number at 255..257, 65535..65537, 200000", spaces.far_positions()
    yield "size-boundary sweep: file size and insertion offset within 3 of 2^9..2^17", spaces.size_boundary_sweep()
    yield "odd characters (NUL, lone CR, VT, FF, NEL, LS, PS, LRM, ZWSP, DEL, NBSP, combining) at 7 places", spaces.odd_characters()
    yield "C13 structured ref states (default layout)", spaces.c13_default_layout(tier)
    yield "C14 directive placements (length <= 1)", spaces.c14_short()
    yield "C11 decoy sequences (length <= 2)", spaces.c11_short(2)
    import itertools
    yield "trees mixing unreadable (invalid UTF-8) files with readable ones: C14 placements interleaved with 108 invalid files", itertools.chain(spaces.c14_short(), spaces.invalid_utf8_files())
    yield "multi-insertion family", spaces.multi_insertion(big_counts=(1000, 2000) if tier == "thorough" else ())
    yield "token sequences of length <= %d" % (3 if tier == "thorough" else 2), spaces.token_sequences(3 if tier == "thorough" else 2)
    yield "real corpora%s" % (" + single-token-edit neighbourhoods" if tier == "thorough" else ""), spaces.corpus_files(tier == "thorough", None if tier == "thorough" else 200_000)
    if tier == "thorough":
        yield "C10 all pairs", spaces.c10_pairs()


def judge_tree(tr, v, fam):
    """The C05 oracle on one tree."""
    if tr.crashed:
        v.violation("cli-crash:%s" % tr.crashed[0], {"family": fam, "what": tr.crashed[1], "stderr": tr.crashed[2]})
        return
    n_tokens = 0
    judged = tr.edit1.exit == 0
    for fr in tr.files:
        v.count()
        strip = cli.token_strip(fr.orig, fr.after1)
        try:
            fr.orig.decode("utf-8")
        except UnicodeDecodeError:
            # an unreadable file: skipped by both modes; nothing may be reported for it and nothing inserted
            if fr.check_positions or fr.after1 != fr.orig:
                v.violation("unreadable-file-reported-or-edited", {"family": fam, "reported": fr.check_positions, "changed": fr.after1 != fr.orig})
            continue
        if strip is None:
            v.violation("edit-not-token-only", {"family": fam, "file": fr.orig.decode("utf-8", "replace")[:600], "after": fr.after1.decode("utf-8", "replace")[:600]},
                        replay_files={"case.rs": fr.orig})
            continue
        n_tokens += len(strip)
        if strip:
            v.distinct(hash(fr.orig))
        if not judged:
            continue
        want = sorted(cli.line_col(fr.orig, off) for off, _ in strip)
        if want != fr.check_positions:
            v.violation("check-positions-differ-from-edit-insertions:%s" % classify(fr, want), {
                "family": fam, "file": fr.orig.decode("utf-8", "replace")[:800], "check_reported": fr.check_positions,
                "edit_inserted_at(line,col)": want, "label": repr(fr.label)[:200]}, replay_files={"case.rs": fr.orig})
    if not judged:
        v.notes.append("tree of family %r not judged: edit run exited %r" % (fam, tr.edit1.exit)) if len(v.notes) < 30 else None
        return
    total = tr.rep_check1.total
    if total is None:
        total = len(tr.rep_check1.missing)      # no recognisable grand-total line: count the per-statement reports instead
    if total != n_tokens:
        v.violation("grand-total-differs", {"family": fam, "check_total": total, "tokens_inserted": n_tokens})
    if tr.rep_edit1.inserted is not None and tr.rep_edit1.inserted != n_tokens:
        v.violation("edit-printed-count-differs", {"family": fam, "printed": tr.rep_edit1.inserted, "tokens_inserted": n_tokens})
    if tr.rep_edit1.inserted is None and n_tokens:
        v.violation("edit-printed-no-count", {"family": fam, "tokens_inserted": n_tokens})
    if (tr.check1.exit != 0) != (n_tokens > 0):
        v.violation("check-exit-status-wrong", {"family": fam, "check_exit": tr.check1.exit, "tokens_inserted": n_tokens, "check_total": total})


def classify(fr, want):
    got = fr.check_positions
    if len(got) != len(want):
        return "count"
    if [l for l, _ in got] != [l for l, _ in want]:
        return "line"
    return "column"


def run(tier, v):
    for name, it in families(tier):
        cases, dropped = difftree.prefilter(list(it))
        n = 0
        for tr in difftree.run_trees(cases, steps=2):
            judge_tree(tr, v, name)
            n += len(tr.files)
        v.subspace(name, n, exhaustive=True, dropped_because_parser_panics=dropped)
    # multi-file trees with nested directories are what run_trees builds (files spread over src/ and src/d0..d2): totals add up across files
    v.sample({"family": "C10 core", "oracle": "sorted (line,col) from --check == sorted line/col of the byte offsets where the edit run inserted tokens"})
    v.coverage["rule"] = ("one evaluation = one file inside a project tree run through --check and then through edit; positions are recomputed from "
                          "byte offsets (1-based, characters, lines end at \\n); distinct = distinct files that received at least one insertion")
