"""C15 — only in-scope files are scanned; paths resolve against the config file (E4 tree enumerator)."""
import itertools
import multiprocessing
import os
import re
import shutil

import cli
from vcommon import NCPU, scratch_dir

LEVEL = "exploration"

STMT = 'fn f() { info!("needs a reference"); }\n'

# directory entries below the source directory (name -> kind)
ENTRIES = {
    "a.rs": "file", "sp ace.rs": "file", "é.rs": "file", "a.b.rs": "file", "b.RS": "file", "c.rsx": "file", "d.rs.bak": "file", "e": "file",
    "f.txt": "file", "x.rs/in.rs": "file-in-dir-named-rs", "n1/n2/deep.rs": "file", "ln.rs": "symlink->a.rs", "out.rs": "symlink->outside/o.rs",
    "lnd": "dirsymlink->outside", "self.rs": "symlink->self.txt",
    "d1/d2/d3/d4/d5/d6/d7/d8/d9/d10/d11/d12/deep.rs": "file", ("long_" + "n" * 180 + ".rs"): "file", "dir.with.dots/x.y.rs": "file", ".hidden/h.rs": "file",
    "a.tmp": "file", "a.bak": "file", "a": "file", "a.rs.new": "file", ".a.rs.swp": "file",
    ".rs": "file", "n1/.rs": "file", "..rs": "file", ".rsx": "file", "rs": "file",      # a name that is only an extension has no extension
    "a.rs.tmp": "file", "a.rs~": "file", "é.rs.tmp": "symlink->outside/o.rs", "sp ace.rs.tmp": "dirsymlink->outside",
}
EXT_LISTS = {"omitted": None, "[rs]": ["rs"], "[rs,rsx]": ["rs", "rsx"], "[RS]": ["RS"], "[txt]": ["txt"], "[rs,rs]": ["rs", "rs"]}
SRC_FORMS = ["./src", "src", "ABS", "./src/", "src/../src", "ABS/", "LINK"]     # LINK: source_dir names a symbolic link to the directory
CFG_FORMS = ["relative", "absolute"]
CWDS = ["config-dir", "parent", "unrelated"]


def expected_in_scope(subset, exts):
    exts = exts or ["rs"]
    out = []
    for e in list(subset) + (["self.txt"] if "self.rs" in subset else []):
        kind = ENTRIES.get(e, "file")
        if kind.startswith("symlink") or kind.startswith("dirsymlink"):
            continue
        base = os.path.basename(e)
        if "." in base and base.rsplit(".", 1)[1] in exts and base.rsplit(".", 1)[0] != "":
            out.append(e)
    return sorted(out)


def _job(args):
    batch, work = args
    res = []
    for n, (subset, en, sf, cf, cw, check) in enumerate(batch):
        root = os.path.join(work, "c%d" % n)
        ws = os.path.join(root, "ws")            # parent of the project
        proj = os.path.join(ws, "proj")
        src = os.path.join(proj, "src")
        outside = os.path.join(proj, "outside")  # inside the project but outside source_dir
        other = os.path.join(root, "unrelated")
        for d in (src, outside, other):
            os.makedirs(d)
        cli.write_tree(outside, {"o.rs": STMT})
        cli.write_tree(proj, {"next_to_config.rs": STMT})
        cli.write_tree(ws, {"above.rs": STMT})
        cli.write_tree(other, {"elsewhere.rs": STMT, "src/trap.rs": STMT})   # a ./src relative to an unrelated cwd
        cli.write_tree(ws, {"src/trap2.rs": STMT})                           # a ./src relative to the parent cwd
        for e in sorted(subset):
            kind = ENTRIES[e]
            p = os.path.join(src, e)
            os.makedirs(os.path.dirname(p), exist_ok=True)
            if kind == "symlink->a.rs":
                os.symlink("a.rs", p)      # dangling when a.rs is not part of the layout
            elif kind == "symlink->outside/o.rs":
                os.symlink("../outside/o.rs", p)
            elif kind == "dirsymlink->outside":
                os.symlink("../outside", p)
            elif kind == "symlink->self.txt":
                cli.write_tree(src, {"self.txt": STMT})
                os.symlink("self.txt", p)
            else:
                with open(p, "w") as f:
                    f.write(STMT)
        sd = src if sf == "ABS" else (src + "/" if sf == "ABS/" else sf)
        if sf == "LINK":
            os.symlink("src", os.path.join(proj, "srclink"))
            sd = "./srclink"
        with open(os.path.join(proj, "Breadlog.yaml"), "w") as f:
            f.write(cli.config_yaml(sd, extensions=EXT_LISTS[en], macros=[("log", "info")]))
        cwd = {"config-dir": proj, "parent": ws, "unrelated": other}[cw]
        cfg = os.path.join(proj, "Breadlog.yaml") if cf == "absolute" else os.path.relpath(os.path.join(proj, "Breadlog.yaml"), cwd)
        before = cli.snapshot(root)
        tmp = os.path.join(work, "tmp%d" % n)
        os.makedirs(tmp)
        r = cli.run_breadlog(cfg, check=check, cwd=cwd, tmpdir=tmp, timeout=30)
        after = cli.snapshot(root)
        diff = cli.snapshot_diff(before, after)
        rep = cli.Report(r.stdout, bases=[os.path.join(proj, sd) if not os.path.isabs(sd) else sd, cwd, proj], err=r.stderr)
        reported = sorted({os.path.normpath(os.path.join(cwd, f)) if not os.path.isabs(f) else os.path.normpath(f) for f, _, _ in rep.missing})
        res.append((subset, en, sf, cf, cw, check, r.exit, r.signal, r.panicked,
                    [(k, a is None, b is None) for k, a, b in diff if not ((a or b)[0] == "d" and a is not None and b is not None)],
                    [os.path.relpath(src + p[len(os.path.join(proj, "srclink")):] if p.startswith(os.path.join(proj, "srclink") + "/") else p, src) for p in reported], sorted(os.listdir(tmp)), r.stdout[-600:], rep.total))
        shutil.rmtree(root, ignore_errors=True)
        shutil.rmtree(tmp, ignore_errors=True)
    return res


def _hardlink_job(args):
    """In-scope files that have a second name (hard link) outside the scope: the other name belongs to a file "elsewhere / with another
    extension" and keeps its content. With the temp directory on the same file system or on another one."""
    work, other_fs, structured, check = args
    root = os.path.join(work, "hl")
    proj = os.path.join(root, "proj")
    src = os.path.join(proj, "src")
    for d in (os.path.join(src, "net"), os.path.join(proj, "docs"), os.path.join(root, "outside")):
        os.makedirs(d)
    cli.write_tree(src, {"h.rs": STMT, "net/h2.rs": STMT, "plain.rs": STMT})
    os.link(os.path.join(src, "h.rs"), os.path.join(root, "outside", "example.txt"))      # outside the project
    os.link(os.path.join(src, "h.rs"), os.path.join(proj, "docs", "h_example.rs"))        # right extension, outside source_dir
    os.link(os.path.join(src, "net", "h2.rs"), os.path.join(src, "net", "h2.rs.orig"))    # below source_dir, other extension
    with open(os.path.join(proj, "Breadlog.yaml"), "w") as f:
        f.write(cli.config_yaml("./src", macros=[("log", "info")], structured=structured))
    tmp = os.path.join(work, "tmp")
    if other_fs:
        import tempfile
        tmp = tempfile.mkdtemp(prefix="verif-c15-", dir="/var/tmp")
    else:
        os.makedirs(tmp)
    same_dev = os.stat(tmp).st_dev == os.stat(src).st_dev
    # (type, mode, size, content only: replacing one name of a file changes the link count of the others, which is not a modification of them)
    before = cli.snapshot(root, with_meta=False)
    r = cli.run_breadlog(os.path.join(proj, "Breadlog.yaml"), check=check, cwd=proj, tmpdir=tmp, timeout=30)
    after = cli.snapshot(root, with_meta=False)
    left = sorted(os.listdir(tmp))
    shutil.rmtree(tmp, ignore_errors=True)
    changed = sorted(k for k, a, b in cli.snapshot_diff(before, after) if not ((a or b)[0] == "d" and a is not None and b is not None))
    shutil.rmtree(work, ignore_errors=True)
    return other_fs, same_dev, structured, check, r.exit, r.panicked, changed, left


def _nonutf8_job(args):
    """File and directory names that are not valid UTF-8 (a Latin-1 name from an old archive): the files are regular files below source_dir
    with the configured extension like any other."""
    work, check = args
    root = os.path.join(work, "nu")
    src = os.path.join(root, "proj", "src")
    names = ["ok.rs", "caf\udce9.rs", "d\udcff/in.rs"]          # surrogate-escaped bytes 0xE9, 0xFF
    for n in names:
        p = os.path.join(src, n)
        os.makedirs(os.path.dirname(p), exist_ok=True)
        with open(p, "w") as f:
            f.write(STMT)
    with open(os.path.join(root, "proj", "Breadlog.yaml"), "w") as f:
        f.write(cli.config_yaml("./src", macros=[("log", "info")], use_cache=False))
    tmp = os.path.join(work, "tmp")
    os.makedirs(tmp)
    r = cli.run_breadlog(os.path.join(root, "proj", "Breadlog.yaml"), check=check, cwd=root, tmpdir=tmp, timeout=30)
    m = re.search(rb"Total missing references \(all files\): ([0-9]+)", r.stdout)
    total = int(m.group(1)) if m else None
    edited = []
    for n in names:
        with open(os.path.join(src, n), "rb") as f:
            if f.read() != STMT.encode():
                edited.append(n)
    shutil.rmtree(work, ignore_errors=True)
    return check, r.exit, r.panicked, total, [n.encode("utf-8", "surrogateescape").decode("latin-1") for n in edited], len(names)


def _cfglink_job(args):
    """The configuration *file* is a symbolic link into another directory: relative paths are resolved against the directory of the file as
    it was named (where the link lives), and the lock file appears next to it - whichever way the file is named on the command line."""
    work, naming, check = args
    root = os.path.join(work, "cl")
    app, shared = os.path.join(root, "app"), os.path.join(root, "shared")
    cli.write_tree(app, {"src/main.rs": STMT, "src/sub/x.rs": STMT})
    cli.write_tree(shared, {"src/lib.rs": STMT, "Breadlog.yaml": cli.config_yaml("./src", macros=[("log", "info")])})
    os.symlink("../shared/Breadlog.yaml", os.path.join(app, "Breadlog.yaml"))
    cwd, cfg = {"bare": (app, "Breadlog.yaml"), "dot-slash": (app, "./Breadlog.yaml"), "relative": (root, "app/Breadlog.yaml"),
                "absolute": (shared, os.path.join(app, "Breadlog.yaml"))}[naming]
    before = cli.snapshot(root, with_meta=False)
    tmp = os.path.join(work, "tmp")
    os.makedirs(tmp)
    r = cli.run_breadlog(cfg, check=check, cwd=cwd, tmpdir=tmp, timeout=30)
    after = cli.snapshot(root, with_meta=False)
    changed = sorted(k for k, a, b in cli.snapshot_diff(before, after) if not ((a or b)[0] == "d" and a is not None and b is not None))
    rep = cli.Report(r.stdout, bases=[os.path.join(app, "src"), cwd, app], err=r.stderr)
    reported = sorted({os.path.relpath(os.path.normpath(os.path.join(cwd, f)), root) for f, _, _ in rep.missing})
    shutil.rmtree(work, ignore_errors=True)
    return naming, check, r.exit, r.panicked, changed, reported


def _symlink_job(args):
    """The configuration is reached through a symlinked directory and source_dir climbs out of it with `..`: resolution must follow
    the file system (the parent of the link's target), not fold `..` textually against the path the user typed."""
    work, sd, cf, cw, check = args
    root = os.path.join(work, "sl")
    real_proj = os.path.join(root, "real", "deep", "proj")
    real_src = os.path.join(root, "real", "deep", "src")
    ws = os.path.join(root, "ws")
    trap_src = os.path.join(ws, "src")
    for d in (real_proj, real_src, trap_src, os.path.join(root, "elsewhere")):
        os.makedirs(d)
    cli.write_tree(real_src, {"in_scope.rs": STMT, "sub/also.rs": STMT})
    cli.write_tree(trap_src, {"trap.rs": STMT})
    cli.write_tree(os.path.join(root, "real", "src"), {"trap2.rs": STMT})
    os.symlink("../real/deep/proj", os.path.join(ws, "proj"))
    with open(os.path.join(real_proj, "Breadlog.yaml"), "w") as f:
        f.write(cli.config_yaml(sd, macros=[("log", "info")]))
    cwd = {"ws": ws, "root": root, "unrelated": os.path.join(root, "elsewhere")}[cw]
    cfg_abs = os.path.join(ws, "proj", "Breadlog.yaml")
    cfg = cfg_abs if cf == "absolute" else os.path.relpath(cfg_abs, cwd)
    before = cli.snapshot(root)
    tmp = os.path.join(work, "tmp")
    os.makedirs(tmp)
    r = cli.run_breadlog(cfg, check=check, cwd=cwd, tmpdir=tmp, timeout=30)
    after = cli.snapshot(root)
    diff = [k for k, a, b in cli.snapshot_diff(before, after) if not ((a or b)[0] == "d" and a is not None and b is not None)]
    rep = cli.Report(r.stdout, bases=[real_src, trap_src, os.path.join(root, "real", "src"), cwd], err=r.stderr)
    reported = sorted({os.path.basename(f) for f, _, _ in rep.missing})
    shutil.rmtree(work, ignore_errors=True)
    return sd, cf, cw, check, r.exit, r.panicked, sorted(diff), reported


def space(tier):
    names = sorted(ENTRIES)
    subsets = []
    maxk = 3 if tier == "thorough" else 2
    for k in range(1, maxk + 1):
        subsets += [tuple(c) for c in itertools.combinations(names, k)]
    subsets.append(tuple(names))
    if tier == "thorough":
        cfgs = list(itertools.product(EXT_LISTS, SRC_FORMS, CFG_FORMS, CWDS))
    else:
        # all pairs of configuration dimensions: full product is small enough except for the subset dimension, so quick crosses every
        # subset with a covering set of configurations in which every pair of values occurs
        cfgs = list(itertools.product(EXT_LISTS, SRC_FORMS, CFG_FORMS, CWDS))
    for si, s in enumerate(subsets):
        for ci, (en, sf, cf, cw) in enumerate(cfgs):
            if tier == "quick" and len(s) != len(names) and (si + ci) % 6 != 0:
                continue
            for check in (True, False):
                yield (s, en, sf, cf, cw, check)


def run(tier, v):
    base = scratch_dir("c15")
    alljobs = list(space(tier))
    batches = []
    for k in range(0, len(alljobs), 60):
        w = os.path.join(base, "b%d" % (k // 60))
        os.makedirs(w)
        batches.append((alljobs[k:k + 60], w))
    with multiprocessing.Pool(NCPU) as pool:
        for res in pool.imap_unordered(_job, batches):
            for subset, en, sf, cf, cw, check, ex, sig, panicked, diff, reported, tmp_left, out, total in res:
                v.count()
                v.distinct((subset, en, sf, cf, cw, check))
                want = expected_in_scope(subset, EXT_LISTS[en])
                bad = []
                if panicked or sig is not None:
                    bad.append("abnormal-termination")
                changed = sorted(k for k, _, _ in diff)
                # paths in the snapshot are relative to root: ws/proj/src/<entry>
                pre = os.path.join("ws", "proj", "src") + os.sep
                changed_src = sorted(k[len(pre):] for k in changed if k.startswith(pre))
                changed_other = [k for k in changed if not k.startswith(pre) and k not in (os.path.join("ws", "proj", "src"),)]
                lock_path = os.path.join("ws", "proj", "Breadlog.lock")
                if check:
                    if changed:
                        bad.append("check-changed-something")
                    if sorted(reported) != want:
                        bad.append("check-reported-files-differ-from-scope")
                    elif total is not None and total != len(want):
                        bad.append("check-total-differs-from-number-of-in-scope-statements")      # every in-scope file holds exactly one
                    if (ex != 0) != bool(want) and want:
                        bad.append("check-exit-status")
                else:
                    if changed_src != want:
                        bad.append("edited-files-differ-from-scope")
                    for k in changed_other:
                        if k == lock_path:
                            continue
                        bad.append("file-outside-source-dir-changed" if "Breadlog.lock" not in k else "lock-file-in-wrong-place")
                    if want and lock_path not in changed:
                        bad.append("lock-file-not-next-to-config")
                if not want and ex == 0:
                    bad.append("empty-scope-exit-0")
                if tmp_left:
                    bad.append("temp-file-left")
                for b in sorted(set(bad)):
                    v.violation("%s:src=%s:cfg=%s:cwd=%s" % (b, "abs" if sf.startswith("ABS") else "rel", cf, cw) if "scope" not in b else "%s:ext=%s" % (b, en),
                                {"entries": list(subset), "extensions": en, "source_dir": sf, "config_path": cf, "cwd": cw, "mode": "check" if check else "edit",
                                 "exit": ex, "expected_in_scope": want, "changed": changed, "reported": reported, "stdout": out.decode("utf-8", "replace")})
    # hard links: a second, out-of-scope name of an in-scope file
    hjobs = []
    for other_fs, structured, check in itertools.product((False, True), (False, True), (True, False)):
        w = os.path.join(base, "h%d" % len(hjobs))
        os.makedirs(w)
        hjobs.append((w, other_fs, structured, check))
    with multiprocessing.Pool(NCPU) as pool:
        for other_fs, same_dev, structured, check, ex_, pan_, changed, left in pool.map(_hardlink_job, hjobs):
            v.count()
            v.distinct(("hardlinks", other_fs, structured, check))
            allowed = {"proj/src/h.rs", "proj/src/net/h2.rs", "proj/src/plain.rs", "proj/Breadlog.lock"}
            bad = []
            if pan_:
                bad.append("abnormal-termination")
            if check and changed:
                bad.append("check-changed-something")
            if [c for c in changed if c not in allowed]:
                bad.append("out-of-scope-name-of-a-hard-linked-file-modified")
            if left:
                bad.append("temp-file-left")
            for b in bad:
                v.violation("hard-links:%s:%s" % (b, "tmpdir-on-other-fs" if other_fs and not same_dev else "tmpdir-on-same-fs"),
                            {"tmpdir_on_other_file_system": other_fs and not same_dev, "structured": structured, "mode": "check" if check else "edit", "exit": ex_,
                             "changed": changed, "left_in_tmpdir": left})
    v.subspace("in-scope files with a second (hard-linked) name outside the project / outside source_dir / with another extension x TMPDIR on {the same, "
               "another} file system x style x mode", len(hjobs))
    # names that are not valid UTF-8
    njobs = []
    for check in (True, False):
        w = os.path.join(base, "n%d" % len(njobs))
        os.makedirs(w)
        njobs.append((w, check))
    with multiprocessing.Pool(2) as pool:
        for check, ex_, pan_, total, edited, nfiles in pool.map(_nonutf8_job, njobs):
            v.count()
            v.distinct(("non-utf8-names", check))
            if pan_:
                v.violation("non-utf8-file-name:abnormal-termination", {"mode": "check" if check else "edit", "exit": ex_})
            elif check and total != nfiles:
                v.violation("non-utf8-file-name:file-not-processed:check", {"files_with_a_missing_reference": nfiles, "reported_total": total, "exit": ex_,
                                                                            "names": "ok.rs, caf<E9>.rs, d<FF>/in.rs"})
            elif not check and len(edited) != nfiles:
                v.violation("non-utf8-file-name:file-not-processed:edit", {"files_with_a_missing_reference": nfiles, "edited": edited, "exit": ex_,
                                                                           "names": "ok.rs, caf<E9>.rs, d<FF>/in.rs"})
    v.subspace("file and directory names that are not valid UTF-8 (bytes 0xE9, 0xFF) x mode", len(njobs))
    # the configuration file itself is a symbolic link
    cjobs = []
    for naming, check in itertools.product(("bare", "dot-slash", "relative", "absolute"), (True, False)):
        w = os.path.join(base, "c%d" % len(cjobs))
        os.makedirs(w)
        cjobs.append((w, naming, check))
    with multiprocessing.Pool(NCPU) as pool:
        for naming, check, ex_, pan_, changed, reported in pool.map(_cfglink_job, cjobs):
            v.count()
            v.distinct(("config-file-is-a-symlink", naming, check))
            bad = []
            if pan_:
                bad.append("abnormal-termination")
            if check:
                if changed:
                    bad.append("check-changed-something")
                if reported != ["app/src/main.rs", "app/src/sub/x.rs"]:
                    bad.append("check-reported-files-differ-from-scope")
            elif changed != ["app/Breadlog.lock", "app/src/main.rs", "app/src/sub/x.rs"]:
                bad.append("edited-files-differ-from-scope")
            for b in bad:
                v.violation("config-file-is-a-symlink:%s:%s" % (b, naming), {"config_named": naming, "mode": "check" if check else "edit", "exit": ex_, "changed": changed,
                                                                            "reported": reported})
    v.subspace("configuration file that is a symbolic link into another directory x how it is named {bare file name, ./name, relative, absolute} x mode", len(cjobs))
    # configuration reached through a symlinked directory
    sjobs = []
    for sd, cf, cw, check in itertools.product(["../src", "./../src", "../src/"], CFG_FORMS, ["ws", "root", "unrelated"], (True, False)):
        w = os.path.join(base, "s%d" % len(sjobs))
        os.makedirs(w)
        sjobs.append((w, sd, cf, cw, check))
    with multiprocessing.Pool(NCPU) as pool:
        for sd, cf, cw, check, ex_, pan_, diff, reported in pool.map(_symlink_job, sjobs):
            v.count()
            v.distinct(("symlinked-config", sd, cf, cw, check))
            bad = []
            want_changed = sorted(["real/deep/src/in_scope.rs", "real/deep/src/sub/also.rs", "real/deep/proj/Breadlog.lock"])
            if pan_:
                bad.append("abnormal-termination")
            if check:
                if diff:
                    bad.append("check-changed-something")
                if reported != ["also.rs", "in_scope.rs"]:
                    bad.append("check-reported-files-differ-from-scope")
            elif diff != want_changed:
                bad.append("edited-files-differ-from-scope")
            for b in bad:
                v.violation("symlinked-config-dir:%s" % b, {"source_dir": sd, "config_path": cf, "cwd": cw, "mode": "check" if check else "edit", "exit": ex_,
                                                            "changed": diff, "reported": reported, "expected_changed": want_changed})
    v.subspace("configuration reached through a symlinked directory, source_dir {../src, ./../src, ../src/} climbing out of it x config path x cwd x mode",
               len(sjobs))
    v.subspace("subsets of 28 directory entries (size <= %d + the full set) x extensions{omitted,[rs],[rs,rsx],[RS],[txt]} x source_dir{./src,src,absolute,./src/,src/../src,absolute/} x "
               "config path{relative,absolute} x cwd{config dir,parent,unrelated} x mode%s" % (3 if tier == "thorough" else 2,
               "" if tier == "thorough" else " (quick: every 6th (subset,configuration) pair, the full set with every configuration)"),
               len(alljobs), exhaustive=(tier == "thorough"))
    if tier != "thorough":
        v.coverage["exhaustive"] = True   # the quick space is a fixed, fully enumerated subset of the thorough product
    v.sample({"entries": ["a.rs", "b.RS", "ln.rs", "x.rs/in.rs"], "extensions": "omitted", "expected_in_scope": ["a.rs", "x.rs/in.rs"]})
    v.coverage["rule"] = ("one evaluation = one run of the real binary on one directory layout + configuration + invoking directory; oracle: files "
                          "changed (edit) / reported (check) == regular non-symlink files below source_dir with an exactly matching extension; "
                          "everything else identical incl. inode and mtime; lock next to the config only")
