"""C18 — SIGINT and SIGTERM stop a run cleanly (engine E1: every signal placement)."""
import re
import signal

import cli
import fsx
import oracles
import scenarios
from c07 import _replay_files, _replay_cmd, replay  # noqa: F401

LEVEL = "model_checking"

_ID_RE = re.compile(rb"\[ref: ([0-9]{1,10})\]|ref = ([0-9]{1,10})(?:u32)?[;,]")


def max_id(src):
    m = 0
    for c in src.values():
        for a, b in _ID_RE.findall(c):
            n = int(a or b)
            if n <= 0xFFFFFFFF:
                m = max(m, n)
    return m


def first_opendir(x):
    for o in x.trace:
        if o.op == "opendir":
            return o.k
    return 10 ** 9


def run(tier, v):
    ex = fsx.Explorer()
    opt = {"post_check": True}
    outcomes = set()

    def oracle(sc, base, x):
        v.count()
        if not x.plan:
            return
        orig = sc.source_bytes()
        sig = oracles.plan_signature(x)
        mode = "check" if sc.check else "edit"
        bad = []
        outcomes.add((sc.name, mode, x.terminated(), x.post_check_exit))
        v.distinct((sc.name, mode, x.terminated(), x.post_check_exit, str(x.lock), tuple(sorted((k, hash(c)) for k, c in x.src.items()))))
        # (1) exits by itself
        if x.timed_out:
            bad.append("hang")
        elif x.signal is not None:
            bad.append("killed-by-signal-%d" % x.signal)
        # (1b) "finishes the file it is working on, stops": after the signal at most one more source file is opened for reading - the one
        # whose turn had already begun (the flag is looked at between files) - and no second pass over the tree is started
        sigs = [(k, a) for k, a in x.plan if k is not None and a.startswith("sig")]
        if sigs and x.signal is None and not x.timed_out:
            k0, a0 = sigs[0]
            # (only the scenario's source files count: a directory opened to be synced after a rename is not a file being started)
            srcs = {"$R0/src/" + f for f in orig}
            later = [o.path for o in x.trace if o.op == "open" and o.cls == "r" and o.path in srcs
                     and (o.k >= k0 if a0.startswith("sig-before") else o.k > k0)]
            # a signal that arrives while the tree is still being listed finds no file in progress: none may be started afterwards
            first_open = next((o.k for o in base.trace if o.op == "open" and o.cls == "r" and o.path in srcs), None)
            last_listing = max([o.k for o in base.trace if o.op in ("opendir", "readdir", "closedir") and (first_open is None or o.k < first_open)] or [-1])
            allowed = 0 if k0 < last_listing else 1
            if len(later) > allowed:
                bad.append("did-not-stop(%d-more-source-files-opened%s)" % (min(len(later), 3), "-after-a-signal-during-discovery" if allowed == 0 else ""))
        # (2) exit 0 only if nothing was left to do
        if x.exit == 0:
            if sc.check:
                opened = {o.path for o in x.trace if o.op == "open" and o.res >= 0}
                not_read = [f for f in orig if "$R0/src/" + f not in opened]
                if not_read:
                    bad.append("check-exit0-without-reading-every-file")
            if x.post_check_exit != 0:
                bad.append("%s-exit0-but-references-still-missing" % mode)
        # (3) atomicity of every source file
        for cls, f in oracles.check_atomicity(sc, base, x):
            bad.append("source-%s" % cls)
        if sc.check and x.src != orig:
            bad.append("check-modified-source")
        # (4) the lock covers every ID written
        wrote = any(x.src.get(f) != o for f, o in orig.items())
        init_lock = sc.lock if isinstance(sc.lock, int) else None
        if sc.use_cache and not sc.check:
            if wrote:
                if not isinstance(x.lock, int):
                    bad.append("lock-missing-after-ids-written")
                elif x.lock <= max_id(x.src):
                    bad.append("lock-not-above-ids-written")
            elif init_lock is not None:
                if not isinstance(x.lock, int) or x.lock < init_lock:
                    bad.append("lock-regressed")
        for b in bad:
            signame = {2: "SIGINT", 15: "SIGTERM"}.get(int(x.plan[0][1].split(":")[1]), "?") if x.plan and x.plan[0][1].startswith("sig") else "?"
            extra = "+io-fault" if any(a.startswith("fail") for _, a in x.plan) else ""
            if len([a for _, a in x.plan if a.startswith("sig")]) == 2:
                signame += "+then-" + {2: "SIGINT", 15: "SIGTERM"}.get(int(x.plan[1][1].split(":")[1]), "?")
            v.violation("%s:%s:%s%s" % (b, mode, signame, extra),
                        {"scenario": sc.name, "mode": mode, "plan": fsx.plan_str(x.plan), "placement": sig, "terminated": x.terminated(),
                         "post_check_exit": x.post_check_exit, "lock": x.lock, "max_id_in_tree": max_id(x.src)},
                        replay_files=_replay_files(sc, x), replay_cmd=_replay_cmd(sc, x))

    names = ["S1", "S2", "S3", "S4", "S8", "S9", "S9b", "S10", "S11"]
    bound = 2 if tier == "thorough" else 1
    for check in (False, True):
        for n in names:
            sc = scenarios.ALL[n](check=check)
            base, nx, capped = ex.explore(sc, {"sig"}, bound if n not in ("S10", "S11") else 1, oracle, opt=opt, second_menu={"fail"},
                                          op_filter=lambda o, d, x: o.k >= first_opendir(x))
            v.subspace("%s/%s: SIGINT,SIGTERM before and after every operation from opendir(source_dir) on%s" % (
                sc.name, "check" if check else "edit", "; then one I/O fault at every later operation" if bound == 2 else ""),
                nx, exhaustive=not capped, ops_in_fault_free_run=len(base.trace))
            if len(v.coverage["samples"]) < 3:
                v.sample({"scenario": sc.name, "mode": "check" if check else "edit",
                          "signal_points": ["%d:%s %s" % (o.k, o.op, o.path) for o in base.trace if o.k >= first_opendir(base)][:50]})
    # dispositions inherited from the parent: SIGHUP ignored (`nohup breadlog ...`), SIGINT ignored (a background job of a non-interactive shell).
    # The oracle is the same: whatever the program makes of an inherited "ignore", it is never killed by the signal, and success is only
    # reported when nothing is left to do
    for ign_name, ign in (("SIGHUP", (signal.SIGHUP,)), ("SIGINT", (signal.SIGINT,)), ("SIGHUP+SIGINT+SIGQUIT", (signal.SIGHUP, signal.SIGINT, signal.SIGQUIT))):
        for check in (False, True):
            for n in (["S2", "S3"] if tier != "thorough" else ["S1", "S2", "S3", "S9", "S11"]):
                sc = scenarios.ALL[n](check=check)
                sc.name += "+%s-ignored-at-entry" % ign_name
                base, nx, capped = ex.explore(sc, {"sigb"} if tier != "thorough" else {"sig"}, 1, oracle, opt=dict(opt, ignored_at_entry=ign),
                                              op_filter=lambda o, d, x: o.k >= first_opendir(x))
                v.subspace("%s/%s: %s ignored when the process starts; SIGINT, SIGTERM at every operation from opendir(source_dir) on" % (
                    sc.name, "check" if check else "edit", ign_name), nx, exhaustive=not capped)
    # a second signal while the first is being honoured (an impatient second Ctrl-C, a supervisor's TERM after the user's INT)
    two = ["S2", "S9"] if tier != "thorough" else ["S1", "S2", "S3", "S4", "S8", "S9", "S9b"]
    for check in (False, True):
        for n in two:
            sc = scenarios.ALL[n](check=check)
            base, nx, capped = ex.explore(sc, {"sigb"}, 2, oracle, opt=opt, second_menu={"sigb"},
                                          op_filter=lambda o, d, x: o.k >= first_opendir(x))
            v.subspace("%s/%s: two signals - {SIGINT,SIGTERM} before every operation from opendir(source_dir) on, then {SIGINT,SIGTERM} before every "
                       "later operation" % (sc.name, "check" if check else "edit"), nx, exhaustive=not capped)
    ex.close()
    v.coverage["rule"] = ("one evaluation = one run of the real binary with SIGINT or SIGTERM raised synchronously before/after one interposed "
                          "operation (stdout writes included); distinct = distinct (scenario, mode, termination, follow-up check status, lock, tree)")
    v.coverage["states"] = len(ex.end_states)
    v.coverage["transitions"] = ex.stats["ops_executed"]
    v.coverage["traces_validated_against_impl"] = ex.stats["executions"]
    v.coverage["distinct_outcomes"] = len(outcomes)
    v.coverage["deviation_bound_completed"] = bound
    v.assumptions += ["signals arrive at libc-call boundaries (a flag-polling program cannot tell the difference)",
                      "placements before the handler is installed are exempt (property text)"]
