"""C13 — structured mode keeps the reference as a well-formed `ref` key-value (E3 + E4)."""
import itertools

import gen
import vh
import clibind
from c10 import chunks, FILLCFG

LEVEL = "exploration"

REF_STATES = [None, "ref = 0", "ref = 1", "ref = 42", "ref = 4294967295",
              'ref = "abc"', "ref = x", "ref = x.id", "ref = 1.5", "ref = 4294967296",
              # integer literals beyond the ID range, up to beyond every machine integer: not a usable reference, and nothing to crash on
              "ref = 18446744073709551615", "ref = 18446744073709551616", "ref = 340282366920938463463374607431768211456",
              "ref = 99999999999999999999999999999999999999999999999999", "ref = 0000000000000000000000007",
              # the form Breadlog writes for IDs above i32::MAX (a bare literal that large does not compile as a key-value), and its near misses
              "ref = 2147483648u32", "ref = 4294967295u32", "ref = 7u32", "ref = 4294967296u32"]
TARGETS = [None, '"t"']
DIRECTIVES = ["", "    // breadlog:no-kvp\n"]
CORE_SHAPES = ['k = 1', 'k = "a;b,c"', 'k = x', 'k', 'k:? = x', 'k:display']


def kv_space(tier):
    if tier == "thorough":
        lists = gen.kv_lists(2) + [l for l in gen.kv_lists(3, CORE_SHAPES) if len(l) == 3]
    else:
        lists = gen.kv_lists(2, CORE_SHAPES) + [l for l in gen.kv_lists(2) if len(l) == 1]
    seen, out = set(), []
    for l in lists:
        if tuple(l) not in seen:
            seen.add(tuple(l))
            out.append(l)
    return out


def layouts(tier):
    if tier == "thorough":
        return list(range(len(FILLCFG)))
    # quick: default, every uniform filler, and every filler at the two sites around the insertion gap and before separators
    return [i for i, f in enumerate(FILLCFG) if not f or "*" in f or set(f) & {"after_target", "after_open", "before_sep", "after_semi"}]


def build(spec):
    for kvl, pos, ri, ti, fi, di in spec:
        kvs = list(kvl)
        if REF_STATES[ri] is not None:
            kvs.insert(pos, REF_STATES[ri])
        st = gen.Stmt(target=TARGETS[ti], kvs=kvs, msg="m {}", trailing=", 1", fill=FILLCFG[fi])
        f = gen.File(True)
        f.raw("fn f() {\n").raw(DIRECTIVES[di]).raw("    ").stmt(st, no_kvp=(di == 1)).raw(";\n}\n")
        code, exp = f.build()
        yield gen.cfg_index(0, True), code, exp, (tuple(kvl), pos, ri, ti, fi, di)


def space(tier):
    for kvl in kv_space(tier):
        for ri in range(len(REF_STATES)):
            positions = range(len(kvl) + 1) if REF_STATES[ri] is not None else [0]
            for pos in positions:
                for ti, fi, di in itertools.product(range(len(TARGETS)), layouts(tier), range(len(DIRECTIVES))):
                    yield (kvl, pos, ri, ti, fi, di)


def classify(f):
    kvl, pos, ri, ti, fi, di = f["label"]
    tags = []
    if ti:
        tags.append("target")
    if REF_STATES[ri] is None:
        tags.append("ref-absent")
    elif ri <= 4 or REF_STATES[ri].endswith("u32"):
        tags.append("ref-literal")
    else:
        tags.append("ref-nonliteral")
    if FILLCFG[fi].get("before_sep") or FILLCFG[fi].get("*"):
        tags.append("filler-before-separator")
    if di:
        tags.append("no-kvp")
    return "%s:%s" % (f["class"], "+".join(tags))


def run(tier, v):
    pool = vh.Pool()
    agg = pool.run("c13", "build", chunks(space(tier), 4000))
    pool.close()
    v.count(agg["n"])
    v.coverage["distinct_nontrivial"] += agg["distinct"]
    v.subspace("ref state (absent, 4 literals, 5 non-literals, 5 over-long integer literals) x position among the other key-values x key-value lists x target x layout x "
               "{none, no-kvp directive}", agg["n"], exhaustive=True, kv_lists=len(kv_space(tier)), layouts=len(layouts(tier)))
    for s in agg["samples"]:
        v.sample({"file": s[0], "expected_entries": s[1]})
    for f in agg["fails"]:
        v.violation(classify(f), {"file": f["code"], "class": f["class"], "detail": f["detail"], "expected": f["expected"], "got": f["got"]},
                    replay_files={"case.rs": f["code"]})
    # CLI: unusable warnings, byte identity of `ref = V` statements, insertion offsets (binding), default layout only
    tuples = [t for t in space(tier) if t[4] == 0 and len(t[0]) <= (2 if tier == "thorough" else 1)]
    nb, nf = clibind.bind(tuples, lambda t: next(build([t])), v)
    v.subspace("CLI pass (default layout): --check missing/unusable report and edit diff equal the in-process entries", nb)
    # several statements of different kinds in one file: in-process against the model, and through the CLI
    import spaces
    kinds = list(spaces.statement_kind_tuples(3))
    res = vh.eval_cases([(c[0], c[1]) for c in kinds])
    for (ci, code, lab), r in zip(kinds, res):
        v.count()
        m = gen.compare(code, lab[2], r)
        if m:
            v.violation("statement-kinds:%s" % m[0], {"file": code, "detail": m[1], "expected": repr(lab[2])[:300], "got": repr(r)[:300]}, replay_files={"case.rs": code})
    nb2, nf2 = clibind.bind([k for k in kinds if len(k[2][1][0]) <= (3 if tier == "thorough" else 2)], lambda k: (k[0], k[1], k[2][2], k[2][1]), v)
    v.subspace("statement-kind tuples: 2..3 statements of 7 kinds (missing, missing+kv, missing+target, message-referenced, key-value-referenced, "
               "unusable ref first/last) x one directive x style, in-process vs the model and through the CLI", len(kinds) + nb2)
    v.coverage["rule"] = ("one evaluation = one generated structured-mode statement parsed by the real finder and compared with the model "
                          "(missing -> insertion in the gap after the target with `ref = N; `/`ref = N, `; literal -> recognised; other -> unusable)")
