"""C12 — a reference counts as present exactly when the message starts with a valid token (E3, native enumeration)."""
import os

import gen
import vh
from vcommon import scratch_dir, NCPU

LEVEL = "exploration"


def run(tier, v):
    paths = vh.cfg_paths()
    cu, cs = paths[gen.cfg_index(0, False)], paths[gen.cfg_index(0, True)]
    maxlen = 6 if tier == "thorough" else 5
    # (i) every string over the 16-symbol alphabet (token characters, ASCII and non-ASCII digits, blank, tab, no-break space, upper-case R, +, x), 5 framings
    outs = vh.run_native("c12prefix", [maxlen, 1, cu])
    n = sum(o["cases"] for o in outs)
    present = sum(o["present"] for o in outs)
    v.count(n)
    v.subspace("every message over {[,],r,e,f,:,blank,0,1,9,ARABIC-INDIC 3,x,+} of length <= %d as whole message, after `[ref: `, `[ref:`, `[ref`, "
               "before `[ref: 1] x`, and between `[ref: ` and a later valid token" % maxlen, n, exhaustive=True, messages_with_valid_token=present)
    v.coverage["distinct_nontrivial"] += present
    for o in outs:
        for f in o["fails"]:
            v.violation(classify(f), f, replay_files={"case.rs": 'fn f() { info!("%s"); }\n' % f["msg"]})
    # (ii) numeric boundaries and all single-character edits of boundary tokens
    outs = vh.run_native("c12near", [1, cu] + (["2000", "40"] if tier == "quick" else ["20000", "400"]), parts=1)
    n2 = sum(o["cases"] for o in outs)
    v.count(n2)
    v.subspace("`[ref: D]` for every digit string D within the radius of 0, 10^9, 2^32, 10^10 with 0-3 leading zeros, plus every single-character "
               "insert/delete/substitute over the alphabet", n2, exhaustive=True, with_valid_token=sum(o["present"] for o in outs))
    for o in outs:
        for f in o["fails"]:
            v.violation(classify(f), f, replay_files={"case.rs": 'fn f() { info!("%s"); }\n' % f["msg"]})
    # (iii) a valid token elsewhere does not count
    cases = []
    for where, code in [("target", 'fn f() { info!(target: "[ref: 5] t", "m"); }\n'),
                        ("kv-string", 'fn f() { info!(a = "[ref: 5] v"; "m"); }\n'),
                        ("trailing-arg", 'fn f() { info!("m {}", "[ref: 5] x"); }\n'),
                        ("mid-message", 'fn f() { info!("m [ref: 5] x"); }\n'),
                        ("second-statement", 'fn f() { info!("[ref: 5] a"); info!("b"); }\n'),
                        ("previous-line-comment", '// [ref: 5]\nfn f() { info!("m"); }\n'),
                        ("preceding-literal", 'fn f() { let s = "[ref: 5] x"; info!("m"); }\n')]:
        cases.append((where, code))
    res = vh.eval_cases([(gen.cfg_index(0, False), c) for _, c in cases])
    for (where, code), r in zip(cases, res):
        v.count()
        ents = r[-1] if r[0] != "panic" else []
        missing = [e for e in ents if e[3] is None]
        want_missing = 1
        if r[0] == "panic" or len(missing) != want_missing:
            v.violation("token-elsewhere-counts:%s" % where, {"file": code, "got": repr(r)}, replay_files={"case.rs": code})
    v.subspace("valid token in target / key-value string / trailing argument / mid-message / neighbouring statement", len(cases))
    # CLI binding: every message of length <= 3 (7 framings) as a file through --check and edit
    import itertools
    import clibind
    S12 = ["[", "]", "r", "e", "f", ":", " ", "0", "1", "9", "\u0663", "x", "+"]
    msgs = set()
    for L in range(0, 4):
        for t in itertools.product(S12, repeat=L):
            m = "".join(t)
            for a, b in (("", ""), ("[ref: ", ""), ("[ref:", ""), ("[ref", ""), ("", "[ref: 1] x"), ("[ref: ", "[ref: 1] x"), ("[ref: ", "] [ref: 7] y")):
                msgs.add(a + m + b)
    msgs = sorted(msgs)
    nb, nf = clibind.bind(msgs, lambda m: (gen.cfg_index(0, False), 'fn f() { info!("%s"); }\n' % m, None, m), v)
    v.subspace("CLI binding: every message of length <= 3 over the alphabet (7 framings) as a file through --check and edit", nb)
    # inserted token for every N
    if tier == "thorough":
        ranges = [(1, 0xFFFFFFFF)]
    else:
        ranges = [(1, 1_000_000)] + [(10 ** k - 100_000, 10 ** k + 100_000) for k in range(7, 10)] + [(0xFFFFFFFF - 200_000, 0xFFFFFFFF)]
    ntok = 0
    import subprocess, json
    from vcommon import VH_BIN
    procs = []
    for lo, hi in ranges:
        span = hi - lo + 1
        parts = NCPU if span > 5_000_000 else 2
        step = (span + parts - 1) // parts
        for i in range(parts):
            a, b = lo + i * step, min(hi, lo + (i + 1) * step - 1)
            if a <= b:
                procs.append(((a, b), subprocess.Popen([VH_BIN, "c12token", str(a), str(b), "1", cu, cs, "full"], stdout=subprocess.PIPE)))
    for (a, b), p in procs:
        o = json.loads(p.communicate()[0].decode())
        ntok += o["cases"]
        for f in o["fails"]:
            v.violation("inserted-token:" + f.split(" for ")[0].split(" does ")[0][:60], {"detail": f})
    v.count(ntok)
    v.subspace("inserted token for every N in %s: text `[ref: N] ` / `ref = N; ` / `ref = N, `, satisfies the presence rule, is read back by Breadlog, "
               "documented regex extracts N" % (", ".join("%d..=%d" % r for r in ranges)), ntok, exhaustive=True)
    v.sample({"message": "[ref: 4294967295] x", "expected": "present, value 4294967295"})
    v.sample({"message": "[ref: 4294967296] x", "expected": "not present"})
    v.sample({"message": " [ref: 1] x", "expected": "not present (does not start with the token)"})
    v.coverage["rule"] = ("one evaluation = one message literal run through the whole parser inside `fn f() { info!(\"<m>\"); }` and compared with "
                          "the ten-line reference rule, or one N for the inserted-token check; non-trivial = messages that carry a valid token")


def classify(f):
    m = f["msg"]
    if f["got"].startswith("PANIC"):
        return "panic"
    got_ref = len(f["got"].split(",")) > 3 and f["got"].split(",")[3] != "-"
    if m[:1] == " ":
        return "blank-before-token-accepted" if got_ref and f["expected"] == "None" else "leading-blank-skipped"
    if m.startswith("//") or m.startswith("/*"):
        return "comment-like-start"
    return "presence-mismatch:" + ("expected-present" if f["expected"] != "None" else "expected-absent")
