"""C08 — an edit run that could not update a file does not report success (engine E1)."""
import errno
import re

import cli
import fsx
import oracles
import scenarios
from c07 import _replay_files, _replay_cmd, replay  # noqa: F401
from vcommon import disk_scratch_dir

LEVEL = "fault_enumeration"


def is_update_op(o):
    """temp-file creation, writes to it, the rename into place"""
    if o.op == "creat" and o.path.startswith("$R1"):
        return True
    if o.op == "write" and o.cls == "w" and o.path.startswith("$R1"):
        return True
    if o.op == "rename" and (o.path.startswith("$R1") or o.path2.startswith("$R0/src")):
        return True      # (the lock file's own rename is not "the new content of a file": C02/C16 govern the lock)
    if o.cls == "w" and o.op in ("creat", "openw", "write") and o.path.startswith("$R0/src/"):
        return True      # an implementation that writes the new content to the source path directly (e.g. a copy fallback)
    return False


def run(tier, v):
    ex = fsx.Explorer()
    opt = {"post_check": True}

    def oracle(sc, base, x):
        v.count()
        orig = sc.source_bytes()
        failed_ops = [o for o in x.trace if is_update_op(o) and o.res < 0]
        tokens = 0
        strip_ok = True
        not_updated = []
        for f, o in orig.items():
            got = x.src.get(f, b"")
            s = cli.token_strip(o, got)
            if s is None:
                strip_ok = False
            else:
                tokens += len(s)
            # "could not update a file": the fault-free run updates it, this run did not produce the complete update
            if base.src.get(f) != o and oracles.classify_source_file(o, got, base.src[f]) is None and got == o:
                not_updated.append(f)
            elif base.src.get(f) != o and oracles.classify_source_file(o, got, base.src[f]) is not None:
                not_updated.append(f)
        rep = cli.Report(x.stdout)
        v.distinct((sc.name, x.terminated(), len(failed_ops) > 0, tokens, rep.inserted))
        sig_base = oracles.plan_signature(x)
        bad = []
        if x.timed_out or x.signal is not None:
            bad.append("abnormal-termination(%s)" % x.terminated())
        elif not_updated and x.exit == 0:
            bad.append("exit0-although-a-file-was-not-updated(%s)" % ("+".join(sorted({o.op for o in failed_ops})) or "no-failed-op"))
        if x.exit == 0:
            if rep.inserted is not None and (not strip_ok or rep.inserted != tokens):
                bad.append("exit0-count-mismatch")
            if x.post_check_exit != 0:
                bad.append("exit0-but-check-fails")
        if x.signal is None and not x.timed_out:
            if x.tmp:
                bad.append("temp-file-left")
            extra = [f for f in x.proj_other if f != "Breadlog.yaml" and f not in sc.raw_files]
            extra += [f for f in x.src if f not in orig]
            # a leftover whose removal was attempted and made to fail by the plan is nothing an implementation could have avoided
            extra = [f for f in extra if not any(o.op == "unlink" and o.res < 0 and o.path.endswith("/" + f) for o in x.trace)]
            if extra or x.cwd:
                bad.append("stray-file-left")
        for b in bad:
            v.violation("%s:%s" % (b, sig_base),
                        {"scenario": sc.name, "plan": fsx.plan_str(x.plan), "exit": x.terminated(), "reported_inserted": rep.inserted,
                         "tokens_present": tokens, "post_check_exit": x.post_check_exit, "tmp": x.tmp,
                         "failed_ops": [repr(o) for o in failed_ops][:4]},
                        replay_files=_replay_files(sc, x), replay_cmd=_replay_cmd(sc, x))

    names = ["S1", "S2", "S3"] + (["S5", "S6", "S10", "S5c", "S5d", "S11"] if tier == "thorough" else ["S6", "S10", "S5c", "S11"])
    bound = 3 if tier == "thorough" else 2
    for n in names:
        sc = scenarios.ALL[n]()
        b = bound if n in ("S1", "S2", "S3") else max(1, bound - 1)
        base, nx, capped = ex.explore(sc, {"fail", "short"}, b, oracle, opt=opt, op_filter=lambda o, d, x: is_update_op(o))
        v.subspace("%s: fail/short on every temp create, temp write and rename, all fault sets of size <= %d" % (sc.name, b), nx,
                   exhaustive=not capped, ops_in_fault_free_run=len(base.trace))
        # sticky faults: every matching operation fails (what a full disk / a temp dir on another file system does)
        plans = [[(None, "sticky:rename:%d" % e)] for e in (errno.EXDEV, errno.EACCES, errno.EIO)]
        plans += [[(None, "sticky:creat:%d" % e)] for e in (errno.ENOSPC, errno.EACCES)]
        plans += [[(None, "sticky:write:%d" % e)] for e in (errno.ENOSPC, errno.EIO)]
        for x in ex.run_plans(sc, plans, opt):
            if x.plan[0][1].startswith("sticky:creat") or x.plan[0][1].startswith("sticky:write"):
                # these also hit the lock file; the oracle only looks at update ops
                pass
            oracle(sc, base, x)
        v.subspace("%s: sticky faults" % sc.name, len(plans))
        if len(v.coverage["samples"]) < 4:
            v.sample({"scenario": sc.name, "update_ops": ["%d:%s %s" % (o.k, o.op, o.path) for o in base.trace if is_update_op(o)]})
    # faults on the lock file's own operations: a lock that cannot be written is only warned about - but whatever the run then does to the
    # source files, it must not leave one without its update and still report success (the oracle is outcome-based)
    def is_lock_op(o):
        return o.cls in ("w", "x") and o.op in ("creat", "openw", "write", "rename", "unlink", "fsync") and (
            o.path.startswith("$R0/Breadlog.lock") or o.path2.startswith("$R0/Breadlog.lock"))
    for n in ["S2", "S3", "S10"] + (["S6", "S11"] if tier == "thorough" else []):
        sc = scenarios.ALL[n]()
        sc.name += "+lock-faults"
        base, nx, capped = ex.explore(sc, {"fail", "short"}, 2 if tier == "thorough" else 1, oracle, opt=opt, op_filter=lambda o, d, x: is_lock_op(o))
        v.subspace("%s: fail/short on every create / write / rename of Breadlog.lock and its scratch file" % sc.name, nx, exhaustive=not capped)
    # a directory in the place of the lock scratch file: every attempt to write the lock fails, for real
    for n in ["S2", "S3"]:
        sc = scenarios.ALL[n]()
        sc.name += "+lock-scratch-is-a-directory"
        sc.raw_files = dict(sc.raw_files, **{"Breadlog.lock.tmp/keep": "x"})
        x = fsx.execute((sc, [], opt))
        ex._account(x)
        b = ex.baseline(scenarios.ALL[n](), opt)
        oracle(sc, b, x)
    v.subspace("S2, S3 with a directory named Breadlog.lock.tmp (the lock can never be written)", 2)
    # the temp directory on another file system as an environment (every rename out of TMPDIR fails with EXDEV), single faults on top
    for n in ["S1", "S2"]:
        sc = scenarios.ALL[n]()
        sc.name += "+tmpdir-on-other-fs"
        base, nx, capped = ex.explore(sc, {"fail", "short"}, 1, oracle, opt=opt, op_filter=lambda o, d, x: is_update_op(o),
                                      base_plan=[(None, "sticky:rename:%d" % errno.EXDEV)])
        v.subspace("%s: every rename out of TMPDIR fails with EXDEV + fail/short on every create / write / rename of new content" % sc.name, nx,
                   exhaustive=not capped)
    # unusual temp-directory settings, no injection: the run either updates every file or says it failed
    forms = ["nonexistent", "file", "relative", "trailing-slash", "non-utf8", "empty"]
    for n in ["S1", "S2", "S3"]:
        for form in forms:
            sc = scenarios.ALL[n]()
            sc.name += "+TMPDIR=" + form
            base0 = fsx.execute((scenarios.ALL[n](), [], opt))
            x = fsx.execute((sc, [], dict(opt, tmp_form=form)))
            ex._account(x)
            oracle(sc, base0, x)
    v.subspace("TMPDIR given as a nonexistent path / a regular file / a relative path / with a trailing slash / a directory whose name is not valid UTF-8 (no injection)", 3 * len(forms))
    # real cross-filesystem temp directory (no injection at all)
    disk = disk_scratch_dir("c08")
    import os
    if os.stat(disk).st_dev != os.stat(ex.base).st_dev:
        for n in names:
            sc = scenarios.ALL[n]()
            x = fsx.execute((sc, [], dict(opt, tmp_on_disk=disk)))
            ex._account(x)
            oracle(sc, x, x)
        v.subspace("real TMPDIR on another file system (no injection)", len(names))
    else:
        v.notes.append("no second file system available: real EXDEV scenario skipped (sticky EXDEV injection still run)")
    ex.close()
    v.coverage["rule"] = ("one evaluation = one edit run of the real binary under a fault plan restricted to temp-file creation, temp-file "
                          "writes and renames; distinct = distinct (scenario, termination, any-update-op-failed, tokens present, count printed)")
    v.coverage["states"] = len(ex.end_states)
    v.coverage["transitions"] = ex.stats["ops_executed"]
    v.coverage["deviation_bound_completed"] = bound
