"""C01 — newly assigned reference IDs are unique and within the documented range (E4 tree enumerator)."""
import itertools
import multiprocessing
import os
import shutil

import cli
from vcommon import NCPU, scratch_dir

LEVEL = "exploration"

U32 = 0xFFFFFFFF
STATES = [None, 0, 1, 2, 7, U32 - 1, U32, "U"]     # "U": `ref = x` key - unusable in structured mode, an ordinary unreferenced statement otherwise
LOCKS = ["absent", "disabled+misleading-lock", "max+1", "max+5", "u32max"]


def stmt(state, structured, k):
    if state == "U":
        return 'info!(ref = x; "m%d");' % k
    if structured:
        return 'info!(%s"m%d");' % ("ref = %d; " % state if state is not None else "", k)
    return 'info!("%sm%d");' % ("[ref: %d] " % state if state is not None else "", k)


def file_text(states, structured, fi):
    return "fn f%d() {\n%s}\n" % (fi, "".join("    " + stmt(s, structured, i) + "\n" for i, s in enumerate(states)))


def existing_ids(combo):
    return [s for f in combo for s in f if isinstance(s, int)]


def n_missing(combo, structured):
    return sum(1 for f in combo for s in f if s is None or (s == "U" and not structured))


def trees(max_files, max_stmts):
    per_file = [()]
    for n in range(1, max_stmts + 1):
        per_file += list(itertools.product(STATES, repeat=n))
    for nf in range(1, max_files + 1):
        for combo in itertools.product(per_file, repeat=nf):
            if not any(s is None or s == "U" for f in combo for s in f):
                continue
            yield combo


def jobs_for(max_files, max_stmts):
    for combo in trees(max_files, max_stmts):
        existing = existing_ids(combo)
        mx = max(existing) if existing else 0
        for structured in (False, True):
            if n_missing(combo, structured) == 0:
                continue
            for lock in LOCKS:
                if lock == "max+1":
                    if mx >= U32:
                        continue
                    lv = mx + 1
                elif lock == "max+5":
                    if mx + 5 > U32:
                        continue
                    lv = mx + 5
                elif lock == "u32max":
                    if mx >= U32:
                        continue
                    lv = U32
                elif lock == "disabled+misleading-lock":
                    lv = 1
                else:
                    lv = None
                yield (combo, structured, lock, lv)


COUNTS = list(range(1, 13)) + [15, 16, 17, 31, 32, 33, 63, 64, 65, 100, 127, 128, 129, 257]


def count_jobs():
    """Counts matter wherever work is batched or buffered: F files (each: missing, existing odd ID, missing) and S statements in one
    file, for every count around small numbers and powers of two."""
    for F in COUNTS:
        combo = tuple((None, 2 * i + 1, "U", None) if i % 3 == 1 else (None, 2 * i + 1, None) for i in range(F))
        yield combo
    for S in COUNTS:
        combo = (tuple(None for _ in range(S)), (7, None), tuple([None, 3] * 2))
        yield combo


def _run_batch(args):
    batch, work = args
    out = []
    for n, (combo, structured, lock, lv) in enumerate(batch):
        proj = os.path.join(work, "p%d" % n)
        files = {"src/f%d.rs" % i: file_text(st, structured, i) for i, st in enumerate(combo)}
        files["Breadlog.yaml"] = cli.config_yaml("./src", structured=structured, use_cache=(False if lock.startswith("disabled") else None))
        if lv is not None:
            files["Breadlog.lock"] = cli.lock_yaml(lv)
        cli.write_tree(proj, files)
        r = cli.run_breadlog(os.path.join(proj, "Breadlog.yaml"), cwd=work, tmpdir=work, timeout=30)
        after = cli.read_tree(proj, "src")
        new_ids = []
        bad_strip = False
        for rel, txt in files.items():
            if not rel.startswith("src/"):
                continue
            s = cli.token_strip(txt.encode(), after.get(rel, b""))
            if s is None:
                bad_strip = True
            else:
                new_ids += [cli.token_id(t) for _, t in s]
        out.append((combo, structured, lock, lv, r.exit, r.signal, r.timed_out, r.panicked, new_ids, bad_strip,
                    cli.read_lock(os.path.join(proj, "Breadlog.lock")), r.stderr[-200:]))
        shutil.rmtree(proj, ignore_errors=True)
    return out


def walk_fault_scenarios():
    """Trees with sub-directories whose listing can fail: every regular file carries one existing ID and one statement that needs one, so that
    whichever order the directory is listed in, a file listed after a failing entry holds IDs the run must still respect."""
    import fsx
    out = []
    for structured in (False, True):
        for name, dirs in (("W1", ("m",)), ("W2", ("d1", "d2/n")), ("W3", ("a", "z", "k/l/m"))):
            # the listing order of a directory is the file system's (on tmpfs: newest entry first), so the creation order is part of the
            # scenario: directories created last / first / between the files
            for order, asc in itertools.product(("dirs-last", "dirs-first", "interleaved"), (True, False)):
                names = ["f%d.rs" % i for i in range(1, 7)]
                dn = [d + "/in.rs" for d in dirs]
                if order == "dirs-last":
                    seq = names + dn
                elif order == "dirs-first":
                    seq = dn + names
                else:
                    seq = []
                    for i, f in enumerate(names):
                        seq.append(f)
                        if i % 2 == 1 and dn:
                            seq.append(dn.pop(0))
                    seq += dn
                files = {}
                n = 0
                for pos, f in enumerate(seq):
                    n += 10
                    files["%02d_%s" % (pos, f)] = "fn f() { " + stmt(n if asc else 10 * len(seq) + 10 - n, structured, 0) + "\n" + stmt(None, structured, 1) + " }\n"
                tag = "%s-%s-%s-%s" % (name, "kv" if structured else "msg", order, "asc" if asc else "desc")
                out.append(fsx.Scenario(tag, files, structured=structured, use_cache=False))
                out.append(fsx.Scenario(tag + "-lock", files, structured=structured, lock=n + 1))
    return out


def run_walk_faults(tier, v):
    """E1: a directory below source_dir that cannot be opened / an entry that cannot be read is one entry skipped; the IDs in every file the
    walk can still reach stay reserved."""
    import re
    import fsx
    ex = fsx.Explorer()
    outcomes = set()

    def oracle(sc, base, x):
        v.count()
        orig = sc.source_bytes()
        # a directory that cannot be opened is skipped; a listing that fails ends that directory's listing (std's ReadDir ends the stream on
        # an error), so files below such a directory are not part of the scanned tree - everything else still is
        failed_dirs = [o.path[len("$R0/src/"):] for o in x.trace if o.op in ("opendir", "readdir") and o.errno != 0 and o.path.startswith("$R0/src/")]
        root_failed = any(o.op in ("opendir", "readdir") and o.errno != 0 and o.path == "$R0/src" for o in x.trace)
        if root_failed:
            failed_dirs.append("")
        reachable = {f: b for f, b in orig.items() if not any(d == "" or f.startswith(d + "/") for d in failed_dirs)}
        existing = set()
        for f, b in reachable.items():
            existing |= {int(m) for m in re.findall(rb"\[ref: (\d+)\]|ref = (\d+)", b) for m in m if m}
        new_ids = []
        bad = []
        for f, b in orig.items():
            got = x.src.get(f)
            if got is None:
                bad.append("file-missing")
                continue
            st = cli.token_strip(b, got)
            if st is None:
                bad.append("not-token-only")
            else:
                new_ids += [cli.token_id(t) for _, t in st]
        v.distinct((sc.name, fsx.plan_str(x.plan)))
        outcomes.add((x.exit, len(new_ids), len(failed_dirs)))
        if x.timed_out or x.signal is not None:
            bad.append("abnormal-termination")
        if len(set(new_ids)) != len(new_ids):
            bad.append("duplicate-among-new-ids")
        if set(new_ids) & existing:
            bad.append("new-id-collides-with-existing-in-reachable-file")
        if sc.lock is None and existing and any(i <= max(existing) for i in new_ids):
            bad.append("new-id-not-above-maximum-without-lock")
        if not root_failed and x is base and len(new_ids) != len(orig):
            bad.append("fault-free-run-did-not-reference-every-statement")
        for b_ in bad:
            v.violation("%s:walk-fault:%s" % (b_, "+".join(sorted({o.op for o in x.trace if o.errno != 0 and o.op in ("opendir", "readdir")})) or "none"),
                        {"scenario": sc.name, "plan": fsx.plan_str(x.plan), "exit": x.exit, "new_ids": sorted(new_ids), "existing_reachable": sorted(existing),
                         "failed_dirs": failed_dirs, "listing_order": [o.path for o in base.trace if o.op == "open" and o.path.startswith("$R0/src")][:12]},
                        replay_files={"proj/src/" + f: b for f, b in orig.items()},
                        replay_cmd="apply the fault plan with the fsx shim (FSX_PLAN=%s) on an edit run of this tree" % fsx.plan_str(x.plan))

    nexec = 0
    scs = walk_fault_scenarios()
    if tier != "thorough":
        scs = [s for s in scs if s.name.startswith(("W1", "W3")) and ("-lock" not in s.name or "interleaved" in s.name)]
    for sc in scs:
        _, n, capped = ex.explore(sc, {"fail"}, 2 if tier == "thorough" else 1, oracle,
                                  op_filter=lambda o, depth, x: o.op in ("opendir", "readdir"))
        nexec += n + 1
    ex.close()
    v.subspace("walk faults: %d trees with 1-3 sub-directories x style x lock {absent+disabled, present}; every opendir/readdir of the walk fails "
               "(EACCES / EIO), %s" % (len(scs), "all pairs of such faults" if tier == "thorough" else "one fault per run"), nexec, exhaustive=True)
    v.coverage["walk_fault_distinct_outcomes(exit, ids inserted, dirs unreadable)"] = len(outcomes)
    v.coverage["walk_fault_engine"] = dict(ex.stats)


def run(tier, v):
    run_walk_faults(tier, v)
    mf, ms = (3, 2) if tier == "thorough" else (2, 2)
    work = scratch_dir("c01")
    alljobs = list(jobs_for(mf, ms))
    if tier == "thorough":
        alljobs += [j for j in jobs_for(2, 3) if max(len(f) for f in j[0]) == 3]
    ncount = 0
    for combo in count_jobs():
        existing = existing_ids(combo)
        mx = max(existing)
        for structured in (False, True):
            for lock, lv in (("absent", None), ("disabled+misleading-lock", 1), ("max+1", mx + 1), ("max+5", mx + 5)):
                alljobs.append((combo, structured, lock, lv))
                ncount += 1
    batches = [(alljobs[k:k + 150], os.path.join(work, "b%d" % (k // 150))) for k in range(0, len(alljobs), 150)]
    for b in batches:
        os.makedirs(b[1])
    outcomes = set()
    with multiprocessing.Pool(NCPU) as pool:
        for res in pool.imap_unordered(_run_batch, batches):
            for combo, structured, lock, lv, ex, sig, to, panicked, new_ids, bad_strip, lock_after, err in res:
                v.count()
                existing = existing_ids(combo)
                mx = max(existing) if existing else 0
                missing = n_missing(combo, structured)
                start = lv if lock in ("max+1", "max+5", "u32max") else (mx + 1 if existing else 1)
                must_fail = start + missing - 1 > U32
                v.distinct((hash(combo), structured, lock))
                outcomes.add((ex, len(new_ids), must_fail))
                bad = []
                if panicked or sig is not None or to:
                    bad.append("abnormal-termination")
                if bad_strip:
                    bad.append("not-token-only")
                if len(set(new_ids)) != len(new_ids):
                    bad.append("duplicate-among-new-ids")
                if set(new_ids) & set(existing):
                    bad.append("new-id-collides-with-existing")
                if any(i < 1 or i > U32 for i in new_ids):
                    bad.append("new-id-out-of-range")
                if lock in ("absent", "disabled+misleading-lock") and any(i <= mx for i in new_ids):
                    bad.append("new-id-not-above-maximum-without-lock")
                if must_fail and ex == 0:
                    bad.append("range-exhausted-but-exit-0")
                edge = "u32-edge" if (mx >= U32 - 1 or lock == "u32max") else "ordinary"
                for b_ in bad:
                    v.violation("%s:%s:%s" % (b_, "lock-" + lock if lock not in ("absent",) else "no-lock", edge),
                                {"tree": [list(f) for f in combo][:12], "files": len(combo), "structured": structured, "lock": lock, "lock_value": lv, "exit": ex,
                                 "signal": sig, "new_ids": new_ids, "existing": existing, "lock_after": lock_after, "stderr": err.decode("utf-8", "replace")},
                                replay_files=dict({"proj/src/f%d.rs" % i: file_text(st, structured, i) for i, st in enumerate(combo)},
                                                  **{"proj/Breadlog.yaml": cli.config_yaml("./src", structured=structured, use_cache=(False if lock.startswith("disabled") else None))},
                                                  **({"proj/Breadlog.lock": cli.lock_yaml(lv)} if lv is not None else {})),
                                replay_cmd="W=$(mktemp -d); cp -r proj $W/; /verif/.build/repo/release/breadlog -c $W/proj/Breadlog.yaml; echo exit=$?; cat $W/proj/src/*.rs")
    v.subspace("all trees with <= %d files x <= %d statements per file over reference states {none,0,1,2,7,2^32-2,2^32-1,unusable `ref = x`} with >= 1 missing, x style x "
               "lock {absent, disabled with misleading lock, max+1, max+5, 2^32-1}%s" % (mf, ms, "; plus 2 files x 3 statements" if tier == "thorough" else ""),
               len(alljobs), exhaustive=True)
    v.subspace("count sweep: F files / S statements per file for every count in %r x style x lock" % COUNTS, ncount, exhaustive=True)
    v.coverage["distinct_outcomes(exit, ids inserted, range exhausted)"] = len(outcomes)
    v.sample({"tree": [[None, 7], [4294967295]], "style": "unstructured", "lock": "absent", "expect": "run fails; nothing out of range inserted"})
    v.sample({"tree": [[None], [2, None]], "style": "structured", "lock": "max+5", "expect": "two new distinct IDs, none in {2}"})
    v.coverage["rule"] = ("one evaluation = one edit run of the real binary on one enumerated tree; new IDs are read off the token-strip diff; "
                          "distinct = distinct (tree, style, lock state)")
