"""C10 — every canonical log statement is found and its reference placed correctly (E3 + E4 binding)."""
import itertools

import gen
import vh
import clibind

LEVEL = "exploration"

# ---- dimensions: name -> (full alphabet, indices of the core alphabet, default index)
MACROS = [(0, 0), (0, 1), (0, 2), (1, 0), (2, 0), (2, 1), (3, 0)]   # (macro set, macro within the set)
KVS = gen.kv_lists(2)
KVS_CORE = [KVS.index([]), KVS.index(['k1 = 1']), KVS.index(['k1 = "a;b,c"', 'k2']), KVS.index(['k1:? = x', 'k2 = x'])]
FILLCFG = [{}] + [{"*": f} for f in gen.FILLERS[1:]] + [{s: f} for s in gen.SITES for f in gen.FILLERS[1:]]
BANG_GAPS = ["", " ", "\n", " /* c */ "]
PREFIX = ['', 'fn f() {\n', '// é名\n\n', '\ufeff', '\ufefffn f() {\n']

DIMS = [
    ("macro", MACROS, [0, 3, 5, 6], 0),
    ("path", [False, True], [0, 1], 0),
    ("target", gen.TARGETS, [0, 1], 0),
    ("kvs", KVS, KVS_CORE, 0),
    ("msg", gen.MESSAGES, [0, 1, 3, 4, 5, 10], 0),
    ("trailing", gen.TRAILING, [0, 1, 5], 0),
    ("fill", FILLCFG, [0, 1, 4, 6], 0),
    ("before", gen.CTX_BEFORE, [0, 3, 8, 15], 0),
    ("after", gen.CTX_AFTER, [0, 1, 4], 0),
    ("prefix", PREFIX, [1], 1),
    ("bang", BANG_GAPS, [0, 1], 0),
    ("paren", ["", " ", "\n    ", " /* c */ "], [0, 2], 0),
    ("eol", [False, True], [0, 1], 0),
    ("style", [False, True], [0, 1], 0),
]
NAMES = [d[0] for d in DIMS]
DEFAULT = tuple(d[3] for d in DIMS)


def build_one(t):
    v = {n: DIMS[i][1][t[i]] for i, n in enumerate(NAMES)}
    ms, mi = v["macro"]
    macro = gen.MACRO_SETS[ms][mi]
    st = gen.Stmt(macro=macro, qualified=v["path"], target=v["target"], kvs=v["kvs"], msg=v["msg"], trailing=v["trailing"],
                  fill=v["fill"], bang_gap=v["bang"], paren_gap=v["paren"])
    f = gen.File(v["style"])
    f.raw(v["prefix"]).raw(v["before"]).stmt(st).raw(v["after"])
    code, exp = f.build(crlf=v["eol"])
    return gen.cfg_index(ms, v["style"]), code, exp, t


def build(spec):
    for t in spec:
        yield build_one(t)


def core_product():
    return itertools.product(*[d[2] for d in DIMS])


def pairs(order):
    """All `order`-tuples of dimensions x all value combinations of their full alphabets, the rest at default;
    crossed with both styles."""
    style_i = NAMES.index("style")
    idx = [i for i in range(len(DIMS)) if i != style_i]
    for combo in itertools.combinations(idx, order):
        for vals in itertools.product(*[range(len(DIMS[i][1])) for i in combo]):
            for s in (0, 1):
                t = list(DEFAULT)
                for i, x in zip(combo, vals):
                    t[i] = x
                t[style_i] = s
                yield tuple(t)


def layout_context_product():
    ix = {n: i for i, n in enumerate(NAMES)}
    for fi, bi, ai, ti, si, ei in itertools.product(range(len(FILLCFG)), range(len(gen.CTX_BEFORE)), range(len(gen.CTX_AFTER)),
                                                    range(len(gen.TARGETS)), (0, 1), (0, 1)):
        t = list(DEFAULT)
        t[ix["fill"]], t[ix["before"]], t[ix["after"]], t[ix["target"]], t[ix["style"]], t[ix["eol"]] = fi, bi, ai, ti, si, ei
        # a key-value so that the kv gap sites exist
        t[ix["kvs"]] = KVS.index(['k1 = 1', 'k2'])
        yield tuple(t)


def chunks(it, n=4000):
    buf = []
    for x in it:
        buf.append(x)
        if len(buf) >= n:
            yield buf
            buf = []
    if buf:
        yield buf


def classify(fail):
    """Signature of a failing case: failure class + the non-default dimension values that matter (coarse)."""
    t = fail["label"]
    v = {n: DIMS[i][1][t[i]] for i, n in enumerate(NAMES)}
    if v["before"] == "m!( a = " and v["after"].startswith('; "') and fail["class"] == "count":
        # one defect, whatever else varies: `other!( key = <statement>; "literal"` is matched as a whole by the log-statement rule, dropped
        # because `other` is not configured, and the statement inside it is never looked at
        return "statement-inside-log-shaped-invocation-of-unconfigured-macro:not-found:%s" % ("structured" if v["style"] else "unstructured")
    tags = []
    if v["msg"][:1] in (" ",) or v["msg"].startswith("\\t"):
        tags.append("msg-leading-blank")
    if v["msg"].startswith("//") or v["msg"].startswith("/*"):
        tags.append("msg-comment-like")
    if v["before"] in ("return ", "break "):
        tags.append("keyword-before")
    if v["before"] in ("let _ = ", "x = ", "} else { ", "|e| ", "foo(); ", "é; ", "{ ", "; ", "=> ", '"s" ', "/* c */ ") and fail["class"] == "count":
        tags.append("ident-before")
    if v["style"] and v["target"] is not None:
        tags.append("structured+target")
    if v["target"] is not None and (v["target"].startswith('"//') or v["target"].startswith('" ')):
        tags.append("target-comment-like-or-blank")
    if v["macro"][0] == 3:
        tags.append("non-ascii-macro")
    if v["bang"]:
        tags.append("layout-before-bang")
    if v["after"] == ";" and fail["class"] == "count":
        tags.append("eof-no-newline")
    return "%s:%s:%s" % ("structured" if v["style"] else "unstructured", fail["class"], "+".join(tags) or "other")


def run(tier, v):
    import corpuscheck
    corpuscheck.check(v, "C10", tier)
    pool = vh.Pool()
    spaces = [("core product (one representative per grammar path in every dimension)", core_product()),
              ("all pairs over the full alphabets x style", pairs(2)),
              ("layout(filler x site) x context-before x context-after x target x eol x style", layout_context_product())]
    if tier == "thorough":
        spaces.append(("all triples over the full alphabets x style", pairs(3)))
    total_fail = 0
    for name, it in spaces:
        agg = pool.run("c10", "build", chunks(it))
        v.count(agg["n"])
        v.subspace(name, agg["n"], exhaustive=True, distinct_files=agg["distinct"], statements_expected=agg["nonvacuous"])
        v.coverage["distinct_nontrivial"] += agg["distinct"]
        for s in agg["samples"][:1]:
            v.sample({"file": s[0], "expected_entries": s[1]})
        total_fail += agg["nfails"]
        for f in agg["fails"]:
            v.violation(classify(f), {"file": f["code"], "class": f["class"], "detail": f["detail"], "expected": f["expected"],
                                      "got": f["got"]},
                        replay_files={"case.rs": f["code"], "cfg.yaml": gen.all_configs()[f["cfg"]]},
                        replay_cmd="printf '0\\t%s\\n' \"$(python3 -c \"import sys;print(open('case.rs').read().replace('\\\\\\\\','\\\\\\\\\\\\\\\\').replace('\\\\n','\\\\\\\\n').replace('\\\\t','\\\\\\\\t').replace('\\\\r','\\\\\\\\r'),end='')\")\" | /verif/.build/vh/release/vh eval cfg.yaml")
    # order independence: entries for a file must not depend on what the same process parsed before it
    import multiprocessing
    core = list(core_product())
    oi = [build_one(t) for t in core[::max(1, len(core) // 240)]]
    with multiprocessing.Pool(vh.NCPU) as p2:
        bad = vh.order_independence([(c[0], c[1]) for c in oi], p2)
    v.count(len(oi) ** 2)
    v.subspace("order independence in-process: every ordered pair (A, B) of %d core cases" % len(oi), len(oi) ** 2)
    for a_idx, b_idx, want, got in bad[:100]:
        v.violation("result-depends-on-previously-parsed-file", {"previous_file": oi[a_idx][1], "file": oi[b_idx][1], "alone": repr(want)[:300],
                                                                 "after_previous": repr(got)[:300]}, replay_files={"previous.rs": oi[a_idx][1], "case.rs": oi[b_idx][1]})
    pool.close()
    # binding pass: the same core cases through the real CLI (check report + edit diff == in-process entries)
    nb, bfails = clibind.bind(list(itertools.islice(core_product(), 0, None, 11 if tier == "quick" else 3)), build_one, v)
    v.subspace("E3<->CLI binding: every %s core case as a file through --check and edit" % ("11th" if tier == "quick" else "3rd"), nb,
               exhaustive=True)
    v.coverage["rule"] = ("one evaluation = one generated file parsed by Breadlog's real finder in-process and compared entry by entry "
                          "(count, kind, byte offset, line, column, inserted text) with the generator's ground truth; distinct = distinct (config, file text)")
    v.notes.append("failing cases in total (before signature grouping): %d" % total_fail)
