"""C03 — edit mode only inserts reference tokens; existing references never change (E4 + E3 preconditions)."""
import re

import cli
import difftree
import spaces

LEVEL = "exploration"

_VALID = re.compile(rb'"\[ref: [0-9]{1,10}\]')


def families(tier):
    yield "every token sequence of length <= %d over the 27-token alphabet x style" % (4 if tier == "thorough" else 3), spaces.token_sequences(4 if tier == "thorough" else 3)
    yield "C10 core product (every %s case)" % ("5th" if tier == "quick" else "1st"), spaces.c10_core(5 if tier == "quick" else 1)
    yield "C10 layouts: every filler at every gap site x target x key-values x style", spaces.c10_layouts()
    yield "file-start variants (BOM, BOM+CRLF, shebang, inner attribute) x bodies x eol x style", spaces.file_start_variants()
    yield "statement-kind tuples: 2..%d statements of 7 kinds x directives in one file x style" % (3 if tier == "thorough" else 2), spaces.statement_kind_tuples(3 if tier == "thorough" else 2)
    yield "cross-feature product: directive x target x key-values x eol x layout x second statement on the line x position x style", spaces.cross_feature_product()
    yield "gap sweep: 2-3 statements separated by 4 KiB / 8 KiB / 64 KiB / 128 KiB / 1 MiB (+-1 byte)", spaces.gap_sweep()
    yield "size-boundary sweep: file size and insertion offset within 3 of 2^9..2^17", spaces.size_boundary_sweep()
    yield "odd characters (NUL, lone CR, VT, FF, NEL, LS, PS, LRM, ZWSP, DEL, NBSP, combining) at 7 places", spaces.odd_characters()
    yield "C13 structured ref states (default layout)", spaces.c13_default_layout(tier)
    yield "C14 directive placements", spaces.c14_short()
    yield "multi-insertion family (n x width x preceding character)", spaces.multi_insertion(big_counts=(1000, 2000) if tier == "thorough" else ())
    yield "real corpora + single-token-edit neighbourhoods", spaces.corpus_files(True, None if tier == "thorough" else 120_000)


def _interleave(bad, good):
    """bad, good: lists of (cfg, bytes, label) - one unreadable file after every three readable ones, so that trees hold both kinds in every
    relative order the file system may list them in"""
    out = []
    bi = 0
    for i, g in enumerate(good):
        out.append(g)
        if i % 3 == 2:
            out.append(bad[bi % len(bad)])
            bi += 1
    return out


def run(tier, v):
    import itertools
    fams = list(families(tier)) + [("files that are not valid UTF-8 (9 byte patterns x 6 places) and contain unreferenced statements", spaces.invalid_utf8_files()),
                                   ("trees mixing unreadable (invalid UTF-8) files with readable ones: invalid files interleaved with statement-kind tuples",
                                    _interleave(list(spaces.invalid_utf8_files()), [(c, t.encode("utf-8"), l) for c, t, l in spaces.statement_kind_tuples(2)]))]
    for name, it in fams:
        cases = list(it)
        if cases and isinstance(cases[0][1], bytes):
            dropped = 0          # byte-level cases cannot go through the in-process pre-filter (it takes text)
        else:
            cases, dropped = difftree.prefilter(cases)
        n = changed = 0
        for tr in difftree.run_trees(cases, steps=2):
            if tr.crashed:
                v.violation("cli-crash:%s" % tr.crashed[0], {"family": name, "what": tr.crashed[1], "stderr": tr.crashed[2]})
                continue
            for fr in tr.files:
                v.count()
                n += 1
                strip = cli.token_strip(fr.orig, fr.after1)
                if strip is None:
                    v.violation("not-token-only:%s" % kind_of_damage(fr), {"family": name, "before": fr.orig.decode("utf-8", "replace")[:800],
                                                                          "after": fr.after1.decode("utf-8", "replace")[:800]},
                                replay_files={"case.rs": fr.orig})
                    continue
                if strip:
                    changed += 1
                    v.distinct(hash(fr.orig))
                    # a statement that already carries a valid reference receives nothing: no token is inserted directly in
                    # front of an existing valid message token
                    for off, tok in strip:
                        if tok.startswith(b"[") and _VALID.match(fr.orig[off - 1:off + 20] if off > 0 else b""):
                            v.violation("token-inserted-before-valid-reference", {"family": name, "before": fr.orig.decode("utf-8", "replace")[:800]},
                                        replay_files={"case.rs": fr.orig})
                # generated statements come with the generator's ground truth: a statement that already carries a valid reference
                # (message token or `ref = <uint>` key-value) receives nothing, so no more tokens than unreferenced statements
                lab = fr.label
                if isinstance(lab, tuple) and len(lab) == 3 and isinstance(lab[2], list):
                    want = sum(1 for e in lab[2] if e[0] == "N" or (e[0] == "S" and e[2] is None))
                    if len(strip) > want:
                        v.violation("statement-that-needs-nothing-received-a-token", {"family": name, "before": fr.orig.decode("utf-8", "replace")[:800],
                                                                                      "after": fr.after1.decode("utf-8", "replace")[:800], "model": repr(lab[2])[:300]},
                                    replay_files={"case.rs": fr.orig})
                if not fr.check_positions and strip:
                    v.violation("file-without-reported-missing-statement-was-modified", {"family": name, "before": fr.orig.decode("utf-8", "replace")[:800],
                                                                                        "after": fr.after1.decode("utf-8", "replace")[:800]},
                                replay_files={"case.rs": fr.orig})
        v.subspace(name, n, exhaustive=True, files_changed=changed, dropped_because_parser_panics=dropped)
    v.sample({"before": 'info!("x")', "after": 'info!("[ref: 1] x")', "strip": [[7, "[ref: 1] "]]})
    v.coverage["rule"] = ("one evaluation = one file run through the real edit command; oracle = a backtracking token-strip exists (after = before + "
                          "inserted tokens only); distinct = distinct files that were changed")


def kind_of_damage(fr):
    a, b = fr.orig, fr.after1
    if len(b) < len(a):
        return "shorter"
    if cli._TOKEN_RE.sub(b"", b) == cli._TOKEN_RE.sub(b"", a):
        return "existing-token-altered"
    return "bytes-changed"
