"""C06 — after a successful edit the tree is a fixpoint and every insertion round-trips (E4 two-step + E3 read-back)."""
import itertools
import cli
import difftree
import gen
import spaces
import vh

LEVEL = "exploration"


def families(tier):
    yield "C10 core product (every %s case)" % ("5th" if tier == "quick" else "1st"), spaces.c10_core(5 if tier == "quick" else 1)
    yield "C10 layouts: every filler at every gap site x target x key-values x style", spaces.c10_layouts()
    yield "file-start variants (BOM, BOM+CRLF, shebang, inner attribute) x bodies x eol x style", spaces.file_start_variants()
    yield "statement-kind tuples: 2..%d statements of 7 kinds x directives in one file x style" % (3 if tier == "thorough" else 2), spaces.statement_kind_tuples(3 if tier == "thorough" else 2)
    yield "cross-feature product: directive x target x key-values x eol x layout x second statement on the line x position x style", spaces.cross_feature_product()
    yield "gap sweep: 2-3 statements separated by 4 KiB / 8 KiB / 64 KiB / 128 KiB / 1 MiB (+-1 byte)", spaces.gap_sweep()
    yield "size-boundary sweep: file size and insertion offset within 3 of 2^9..2^17", spaces.size_boundary_sweep()
    yield "odd characters (NUL, lone CR, VT, FF, NEL, LS, PS, LRM, ZWSP, DEL, NBSP, combining) at 7 places", spaces.odd_characters()
    yield "C13 structured ref states (default layout)", spaces.c13_default_layout(tier)
    yield "C14 directive placements", spaces.c14_short()
    yield "multi-insertion family", spaces.multi_insertion(big_counts=(1000, 2000) if tier == "thorough" else ())
    yield "real corpora", spaces.corpus_files(False, None if tier == "thorough" else 200_000)
    if tier == "thorough":
        yield "C10 all pairs", spaces.c10_pairs()


def run_id_range_edge(tier, v):
    """edit -> check -> edit on trees whose IDs end at the top of the range: the run that hands out 4294967295 leaves a lock that says so, and
    the next run must leave sources and lock exactly as they are."""
    import os
    import shutil
    from vcommon import scratch_dir
    U32 = 0xFFFFFFFF
    work = scratch_dir("c06edge")
    n = 0
    outcomes = set()
    for top, missing, lock, structured, split in itertools.product((U32 - 3, U32 - 2, U32 - 1, U32), (0, 1, 2, 3), ("absent", "next", "stale-low", "disabled"),
                                                                   (False, True), (False, True)):
        def st(i, ref):
            if structured:
                return 'fn f%d() { info!(%sk = %d; "m%d"); }\n' % (i, "ref = %d, " % ref if ref else "", i, i)
            return 'fn f%d() { info!("%sm%d"); }\n' % (i, "[ref: %d] " % ref if ref else "", i)
        stmts = [st(0, top - 1 if top > 1 else None), st(1, top)] + [st(2 + i, None) for i in range(missing)]
        files = {"src/a.rs": "".join(stmts)} if not split else {"src/a.rs": "".join(stmts[:2]), "src/b.rs": "".join(stmts[2:]) or "fn g() {}\n"}
        proj = os.path.join(work, "p%d" % n)
        n += 1
        files["Breadlog.yaml"] = cli.config_yaml("./src", structured=structured, use_cache=(False if lock == "disabled" else None))
        if lock == "next" and top < U32:
            files["Breadlog.lock"] = cli.lock_yaml(top + 1)
        elif lock == "next":
            files["Breadlog.lock"] = cli.lock_yaml(0)
        elif lock == "stale-low":
            files["Breadlog.lock"] = cli.lock_yaml(5)
        cli.write_tree(proj, files)
        cfg = os.path.join(proj, "Breadlog.yaml")
        r1 = cli.run_breadlog(cfg, cwd=work, tmpdir=work, timeout=60)
        v.count()
        info = {"top_id": top, "missing": missing, "lock": lock, "structured": structured, "two_files": split}
        if r1.panicked or r1.signal is not None or r1.timed_out:
            v.violation("cli-crash:id-range-edge", dict(info, stderr=r1.stderr.decode("utf-8", "replace")[-400:]))
            continue
        outcomes.add((r1.exit, lock, missing, top == U32))
        if r1.exit == 0:
            s1, l1 = cli.read_tree(os.path.join(proj, "src")), cli.read_lock(os.path.join(proj, "Breadlog.lock"))
            rc = cli.run_breadlog(cfg, check=True, cwd=work, tmpdir=work, timeout=60)
            r2 = cli.run_breadlog(cfg, cwd=work, tmpdir=work, timeout=60)
            s2, l2 = cli.read_tree(os.path.join(proj, "src")), cli.read_lock(os.path.join(proj, "Breadlog.lock"))
            v.distinct(("edge", top, missing, lock, structured, split))
            replay = {k if k.startswith("src/") else k: val for k, val in files.items()}
            if rc.exit != 0:
                v.violation("check-fails-after-successful-edit:id-range-edge", dict(info, check_exit=rc.exit), replay_files=replay)
            if r2.exit != 0:
                v.violation("second-edit-fails:id-range-edge", dict(info, exit=r2.exit, stdout=r2.stdout.decode("utf-8", "replace")[-400:]), replay_files=replay)
            if s2 != s1:
                v.violation("second-edit-changes-bytes:id-range-edge", info, replay_files=replay)
            if l2 != l1:
                v.violation("second-edit-changes-lock:id-range-edge", dict(info, lock1=l1, lock2=l2), replay_files=replay)
            # read-back: the finder must return every ID that was just written
            for rel, txt in files.items():
                if not rel.startswith("src/"):
                    continue
                got = s1.get(rel[4:], b"")
                strip = cli.token_strip(txt.encode(), got)
                if not strip:
                    continue
                res = vh.eval_cases([(gen.cfg_index(0, structured), got.decode("utf-8"))])[0]
                refs = [e[3] for e in res[1]] if res[0] == "ok" else []
                for _, tok in strip:
                    if cli.token_id(tok) not in refs:
                        v.violation("inserted-id-not-read-back:id-range-edge", dict(info, token=tok.decode(), read_back=refs, after=got.decode("utf-8", "replace")[:400]),
                                    replay_files=replay)
        shutil.rmtree(proj, ignore_errors=True)
    v.subspace("ID-range edge: largest existing ID in {2^32-4 .. 2^32-1} x 0..3 unreferenced statements x lock {absent, exact, stale low, disabled} x style x "
               "{one file, two files}: edit, check, edit", n, exhaustive=True, distinct_first_run_outcomes=len(outcomes))


def run(tier, v):
    run_id_range_edge(tier, v)
    import c03
    mixed = c03._interleave(list(spaces.invalid_utf8_files()), [(c, t.encode("utf-8"), l) for c, t, l in spaces.statement_kind_tuples(2)])
    for name, it in list(families(tier)) + [("trees mixing unreadable (invalid UTF-8) files with readable ones", mixed)]:
        cases = list(it)
        if cases and isinstance(cases[0][1], bytes):
            dropped = 0
        else:
            cases, dropped = difftree.prefilter(cases)
        n = 0
        readback = []
        for tr in difftree.run_trees(cases, steps=4, use_cache=True):
            if tr.crashed:
                v.violation("cli-crash:%s" % tr.crashed[0], {"family": name, "what": tr.crashed[1], "stderr": tr.crashed[2]})
                continue
            n += len(tr.files)
            v.count(len(tr.files))
            if tr.edit1.exit != 0:
                v.notes.append("tree of %r skipped: edit#1 exit %r" % (name, tr.edit1.exit)) if len(v.notes) < 30 else None
                continue
            if tr.check2.exit != 0:
                offenders = [fr for fr in tr.files if False]
                v.violation("check-fails-after-successful-edit", {"family": name, "check_total": tr.rep_check2.total,
                                                                  "missing": tr.rep_check2.missing[:5]})
            for fr in tr.files:
                if fr.after2 != fr.after1:
                    v.violation("second-edit-changes-bytes", {"family": name, "orig": fr.orig.decode("utf-8", "replace")[:600],
                                                              "after1": fr.after1.decode("utf-8", "replace")[:600],
                                                              "after2": fr.after2.decode("utf-8", "replace")[:600]}, replay_files={"case.rs": fr.orig})
                strip = cli.token_strip(fr.orig, fr.after1)
                if strip:
                    v.distinct(hash(fr.orig))
                    readback.append((fr, strip))
            if tr.lock1 != tr.lock2:
                v.violation("second-edit-changes-lock", {"family": name, "lock1": tr.lock1, "lock2": tr.lock2})
        # read-back: the real parser must recognise every edited statement with exactly the ID it was given
        if readback:
            before = vh.eval_cases([(fr.cfg, fr.orig.decode("utf-8")) for fr, _ in readback])
            after = vh.eval_cases([(fr.cfg, fr.after1.decode("utf-8")) for fr, _ in readback])
            for (fr, strip), rb, ra in zip(readback, before, after):
                if rb[0] != "ok" or ra[0] != "ok":
                    v.violation("parser-fails-on-edited-file", {"family": name, "after1": fr.after1.decode("utf-8", "replace")[:600], "result": repr(ra)[:300]})
                    continue
                eb, ea = rb[1], ra[1]
                if len(ea) < len(eb):
                    v.violation("statement-no-longer-recognised-after-edit:%s" % tag(fr), {
                        "family": name, "orig": fr.orig.decode("utf-8", "replace")[:600], "after1": fr.after1.decode("utf-8", "replace")[:600],
                        "entries_before": len(eb), "entries_after": len(ea)}, replay_files={"case.rs": fr.orig})
                    continue
                # the i-th missing entry of `before` received strip[i]; match entries by order
                missing_idx = [i for i, e in enumerate(eb) if e[3] is None and e[5]]
                if len(missing_idx) != len(strip) or len(ea) != len(eb):
                    v.violation("entry-count-mismatch-after-edit:%s" % tag(fr), {"family": name, "orig": fr.orig.decode("utf-8", "replace")[:600],
                                                                                 "after1": fr.after1.decode("utf-8", "replace")[:600]},
                                replay_files={"case.rs": fr.orig})
                    continue
                for i, (off, tok) in zip(missing_idx, strip):
                    if ea[i][3] != cli.token_id(tok):
                        v.violation("inserted-id-not-read-back:%s" % tag(fr), {"family": name, "after1": fr.after1.decode("utf-8", "replace")[:600],
                                                                               "token": tok.decode(), "read_back": ea[i][3]},
                                    replay_files={"case.rs": fr.orig})
        v.subspace(name, n, exhaustive=True, edited_files_read_back=len(readback), dropped_because_parser_panics=dropped)
    v.sample({"step1": 'info!(a = 1; "m") -> info!(ref = 7, a = 1; "m")', "step2": "--check exits 0", "step3": "second edit: no byte changes, lock unchanged",
              "read_back": "finder returns ref 7 for the statement"})
    v.coverage["rule"] = ("one evaluation = one file of a tree run through edit, check, edit; the edited text is parsed again by the real finder "
                          "(in-process) and every inserted ID must be read back; distinct = distinct files that received an insertion")


def tag(fr):
    t = "structured" if fr.cfg % 2 else "unstructured"
    if b"target:" in fr.orig:
        t += "+target"
    return t
