"""An independent, deliberately boring recogniser of log statements in real Rust code (reference model for C10 / C11 on the corpora).

It is a lexer (comments incl. nested block comments, string / raw string / byte string / char literals vs lifetimes, identifiers, numbers,
punctuation) plus a small pattern over its tokens. It classifies every invocation `path::name!(` of a configured macro as

  CANON   - unmistakably of the canonical form the property speaks of: `(` [target: STRING ,] [simple key-values ;] STRING ...
            -> Breadlog must find it, with the message at the STRING's offset;
  NOTLOG  - unmistakably not a statement with a literal message (`name!()`, first argument an identifier / a macro call / a number ...)
            -> Breadlog must not report anything inside it that it takes for *this* invocation's message;
  UNSURE  - anything else (expressions as key-value values, format strings built by concat!, ...) -> not judged.

and it knows for every byte whether it lies in a comment, in a literal or in code, so that "an entry inside a comment" can be told.
"""
import re

_ID_START = re.compile(r"[A-Za-z_\u0080-\U0010ffff]")
_ID = re.compile(r"[A-Za-z_\u0080-\U0010ffff][A-Za-z0-9_\u0080-\U0010ffff]*")
_NUM = re.compile(r"[0-9][0-9A-Za-z_]*(?:\.[0-9][0-9A-Za-z_]*)?")
_WS = re.compile(r"\s+")


def lex(text):
    """-> list of (kind, start, end) with kind in {ws, lc, bc, str, chr, life, id, num, p}; offsets in characters."""
    out = []
    i, n = 0, len(text)
    while i < n:
        c = text[i]
        m = _WS.match(text, i)
        if m:
            out.append(("ws", i, m.end()))
            i = m.end()
            continue
        if text.startswith("//", i):
            j = text.find("\n", i)
            j = n if j < 0 else j
            out.append(("lc", i, j))
            i = j
            continue
        if text.startswith("/*", i):
            depth, j = 1, i + 2
            while j < n and depth:
                if text.startswith("/*", j):
                    depth += 1
                    j += 2
                elif text.startswith("*/", j):
                    depth -= 1
                    j += 2
                else:
                    j += 1
            out.append(("bc", i, j))
            i = j
            continue
        # raw strings r"..", r#".."#, br#".."#, and byte / C strings b"..", c".."
        m = re.compile(r'(?:b|c)?r(#*)"').match(text, i)
        if m:
            close = '"' + m.group(1)
            j = text.find(close, m.end())
            j = n if j < 0 else j + len(close)
            out.append(("str", i, j))
            i = j
            continue
        if c == '"' or (c in "bc" and i + 1 < n and text[i + 1] == '"'):
            j = i + (1 if c == '"' else 2)
            while j < n and text[j] != '"':
                j += 2 if text[j] == "\\" else 1
            j = min(n, j + 1)
            out.append(("str", i, j))
            i = j
            continue
        if c == "'" or (c == "b" and i + 1 < n and text[i + 1] == "'"):
            s = i + (1 if c == "'" else 2)
            # char literal: 'x', '\n', '\u{..}', '\''; lifetime / label: 'a (no closing quote right after one character)
            if s < n and text[s] == "\\":
                j = text.find("'", s + 2)
                j = n if j < 0 else j + 1
                out.append(("chr", i, j))
                i = j
                continue
            if s + 1 < n and text[s + 1] == "'":
                out.append(("chr", i, s + 2))
                i = s + 2
                continue
            m = _ID.match(text, s)
            if m and c == "'":
                out.append(("life", i, m.end()))
                i = m.end()
                continue
            out.append(("p", i, i + 1))
            i += 1
            continue
        m = _ID.match(text, i)
        if m:
            # raw identifier r#name
            out.append(("id", i, m.end()))
            i = m.end()
            if text.startswith("#", i) and text[m.start():m.end()] == "r" and _ID_START.match(text, i + 1 if i + 1 < n else i):
                m2 = _ID.match(text, i + 1)
                out[-1] = ("id", m.start(), m2.end())
                i = m2.end()
            continue
        m = _NUM.match(text, i)
        if m:
            out.append(("num", i, m.end()))
            i = m.end()
            continue
        if text.startswith("::", i):
            out.append(("p", i, i + 2))
            i += 2
            continue
        out.append(("p", i, i + 1))
        i += 1
    return out


def invocations(text, macros):
    """macros: list of (module, name). Yields dicts: {class, name_start, open, msg_start (CANON), path}."""
    toks = lex(text)
    sig = [t for t in toks if t[0] not in ("ws", "lc", "bc")]
    names = {n for _, n in macros}

    def s(t):
        return text[t[1]:t[2]]
    k = 0
    while k < len(sig):
        t = sig[k]
        if t[0] == "id" and s(t) in names and k + 2 < len(sig) and s(sig[k + 1]) == "!" and s(sig[k + 2]) == "(":
            # the path before the name
            path = []
            j = k
            while j >= 2 and s(sig[j - 1]) == "::" and sig[j - 2][0] == "id":
                path.insert(0, s(sig[j - 2]))
                j -= 2
            leading_colons = j >= 1 and s(sig[j - 1]) == "::"
            # something like `$crate::info!` or `x.info!`: not judged
            glued = j >= 1 and s(sig[j - 1]) in ("$", ".", "#")
            mod = "::".join(path)
            configured = (not path and not leading_colons) or ((mod, s(t)) in macros and not leading_colons)
            a = k + 3
            cls = "UNSURE"
            msg = None

            def is_simple_value(x):
                return x[0] in ("id", "num", "str")
            p = a
            # optional target
            if p + 3 < len(sig) and s(sig[p]) == "target" and s(sig[p + 1]) == ":" and sig[p + 2][0] == "str" and s(sig[p + 3]) == ",":
                p += 4
            elif p + 1 < len(sig) and s(sig[p]) == "target" and s(sig[p + 1]) == ":":
                p = None      # non-literal target: not canonical, not judged
            if p is not None and p < len(sig):
                if sig[p][0] == "str" and not s(sig[p]).startswith(("r", "b", "c")):
                    cls, msg = "CANON", sig[p][1]
                elif s(sig[p]) == ")":
                    cls = "NOTLOG"
                elif sig[p][0] == "id":
                    # a key-value list `k [:mod] [= simple] (, ...)* ;` then STRING  - or a bare identifier argument
                    q = p
                    ok = True
                    while True:
                        if q >= len(sig) or sig[q][0] != "id":
                            ok = False
                            break
                        q += 1
                        if q < len(sig) and s(sig[q]) == ":":
                            q += 1
                            if q < len(sig) and s(sig[q]) in ("?", "%"):
                                q += 1
                            elif q < len(sig) and sig[q][0] == "id":
                                q += 1
                            else:
                                ok = False
                                break
                        if q < len(sig) and s(sig[q]) == "=":
                            q += 1
                            if q < len(sig) and is_simple_value(sig[q]) and not (sig[q][0] == "str" and s(sig[q]).startswith(("r", "b", "c"))):
                                q += 1
                            else:
                                ok = False
                                break
                        if q < len(sig) and s(sig[q]) == ",":
                            q += 1
                            continue
                        break
                    if ok and q + 1 < len(sig) and s(sig[q]) == ";" and sig[q + 1][0] == "str" and not s(sig[q + 1]).startswith(("r", "b", "c")):
                        cls, msg = "CANON", sig[q + 1][1]
                    elif p == a and q == p + 1 and q < len(sig) and s(sig[q]) in (")", ","):
                        cls = "NOTLOG"      # name!(IDENT) / name!(IDENT, ...): configured name used without a literal message
                elif sig[p][0] == "num":
                    cls = "NOTLOG"
            if glued:
                cls = "UNSURE"
            yield {"class": cls, "configured": configured, "name_start": (sig[j][1] if path else t[1]), "open": sig[k + 2][1], "msg_start": msg, "path": mod,
                   "name": s(t)}
            k += 3
            continue
        k += 1


def region_map(text):
    """-> list parallel to characters: 'c' code, 'C' comment, 'S' inside a string / char literal (excluding nothing)"""
    reg = ["c"] * len(text)
    for kind, a, b in lex(text):
        if kind in ("lc", "bc"):
            for i in range(a, b):
                reg[i] = "C"
        elif kind in ("str", "chr"):
            for i in range(a, b):
                reg[i] = "S"
    return reg
