"""E1: exhaustive fault / crash / signal exploration of the real binary under the LD_PRELOAD interposer.

A *scenario* is a small project tree + configuration + mode.  `explore()` runs the fault-free execution twice
(trace determinism), then every single deviation (operation index x applicable action), then - up to `bound` -
every further deviation at every later operation of the *new* trace.  Every execution runs to process
termination on a fresh copy of the scenario; the caller's oracle is applied to each.
"""
import errno
import multiprocessing
import os
import shutil
import signal

import cli
from vcommon import NCPU, MachineryError, scratch_dir

EIO, ENOSPC, EXDEV, EACCES, EMFILE, EROFS, EINVAL = errno.EIO, errno.ENOSPC, errno.EXDEV, errno.EACCES, errno.EMFILE, errno.EROFS, errno.EINVAL

FAIL_MENU = {
    "open": [EACCES, EIO, EMFILE],
    "creat": [EACCES, ENOSPC, EROFS],
    "openw": [EACCES, ENOSPC, EROFS],
    "write": [EIO, ENOSPC, EINVAL, errno.EOPNOTSUPP],      # the last two: errnos an implementation may be tempted to wave through as "not supported"
    "rename": [EXDEV, EACCES, EIO],
    "unlink": [EACCES],
    "read": [EIO],
    "fsync": [EIO, EINVAL],
    "opendir": [EACCES],
    "readdir": [EIO],
}


class Scenario:
    def __init__(self, name, files, check=False, lock=None, structured=None, use_cache=None, extensions=None,
                 macros=None, raw_files=None, config_text=None, extras=()):
        self.name = name
        self.files = files            # rel path under proj/src -> str/bytes
        self.check = check
        self.lock = lock              # None, int, or raw str
        self.config = config_text if config_text is not None else cli.config_yaml(
            "./src", structured=structured, use_cache=use_cache, extensions=extensions, macros=macros)
        self.raw_files = raw_files or {}   # rel path under proj/ (non-source, e.g. README)
        self.use_cache = True if use_cache is None else use_cache
        self.extensions = list(extensions) if extensions else ["rs"]
        self.extras = tuple(extras)   # "symlinks", "lockdir", "noconfig"

    def materialise(self, work):
        proj = os.path.join(work, "proj")
        os.makedirs(os.path.join(proj, "src"))
        os.makedirs(os.path.join(work, "tmp"))
        os.makedirs(os.path.join(work, "cwd"))
        os.makedirs(os.path.join(work, "outside"))
        with open(os.path.join(work, "outside", "o.rs"), "w") as f:
            f.write('fn o() { info!("outside"); }\n')
        with open(os.path.join(proj, "Breadlog.yaml"), "w") as f:
            f.write(self.config)
        cli.write_tree(os.path.join(proj, "src"), self.files)
        cli.write_tree(proj, self.raw_files)
        if self.lock is not None:
            with open(os.path.join(proj, "Breadlog.lock"), "w") as f:
                f.write(cli.lock_yaml(self.lock) if isinstance(self.lock, int) else self.lock)
        if "symlinks" in self.extras:
            os.symlink("a.rs", os.path.join(proj, "src", "ln.rs"))
            os.symlink("../../outside/o.rs", os.path.join(proj, "src", "out.rs"))
            os.symlink("../../outside", os.path.join(proj, "src", "lnd"))
        if "lockdir" in self.extras:
            os.makedirs(os.path.join(proj, "Breadlog.lock"))
        if "noconfig" in self.extras:
            os.unlink(os.path.join(proj, "Breadlog.yaml"))
        return proj

    def source_bytes(self):
        return {k: (v.encode() if isinstance(v, str) else v) for k, v in self.files.items()}


class Exec:
    """Result of one execution (picklable)."""
    __slots__ = ("plan", "exit", "signal", "timed_out", "stdout", "stderr", "trace", "src", "proj_other", "tmp",
                 "cwd", "outside", "lock", "meta_before", "meta_after", "post_check_exit", "post_check_out", "post_mut_ops", "post_snap_diff", "follow")

    def terminated(self):
        if self.timed_out:
            return "timeout"
        if self.signal is not None:
            return "signal:%d" % self.signal
        return "exit:%d" % self.exit


def plan_str(plan):
    return ",".join("%d:%s" % (k, a) if k is not None else a for k, a in plan)


_WORK_BASE = None


def _init_worker(base):
    global _WORK_BASE
    _WORK_BASE = base
    # NB: never ignore SIGINT here - an ignored disposition is inherited by the subject across exec


def execute(args):
    """args = (scenario, plan, options) ; options: dict(meta=bool, post_check=bool, tmp_on_disk=path|None)"""
    sc, plan, opt = args
    base = _WORK_BASE or scratch_dir("fsx")
    work = os.path.join(base, "w%d_%d" % (os.getpid(), execute.counter))
    execute.counter += 1
    os.makedirs(work)
    try:
        proj = sc.materialise(work)
        tmpdir = os.path.join(work, "tmp")
        if opt.get("tmp_on_disk"):
            tmpdir = os.path.join(opt["tmp_on_disk"], "t%d_%d" % (os.getpid(), execute.counter))
            os.makedirs(tmpdir)
        tmp_env = tmpdir
        if opt.get("tmp_form") == "non-utf8":
            tmpdir = os.path.join(work, "scr\udce9tch")      # a directory whose name is not valid UTF-8 (byte 0xE9)
            os.makedirs(tmpdir)
            tmp_env = tmpdir
        if opt.get("tmp_form") == "nonexistent":
            tmp_env = os.path.join(work, "no", "such", "dir")
        elif opt.get("tmp_form") == "file":
            tmp_env = os.path.join(work, "tmpfile")
            open(tmp_env, "w").close()
        elif opt.get("tmp_form") == "relative":
            tmp_env = os.path.relpath(tmpdir, os.path.join(work, "cwd"))
        elif opt.get("tmp_form") == "empty":
            tmp_env = ""            # TMPDIR set to the empty string: Rust's temp_dir() is then "" and scratch files are relative to the cwd
        elif opt.get("tmp_form") == "trailing-slash":
            tmp_env = tmpdir + "/"
        elif opt.get("tmp_form") == "readonly":
            os.chmod(tmpdir, 0o555)
        roots = [proj, tmpdir, os.path.join(work, "cwd"), os.path.join(work, "outside")]
        x = Exec()
        x.plan = plan
        x.meta_before = None
        x.meta_after = None
        if opt.get("meta"):
            x.meta_before = {r: cli.snapshot(r) for r in (proj, tmpdir, os.path.join(work, "cwd"), os.path.join(work, "outside"))}
        r = cli.run_breadlog(os.path.join(proj, "Breadlog.yaml"), check=sc.check, cwd=os.path.join(work, "cwd"),
                             tmpdir=tmp_env, timeout=opt.get("timeout", 30), ignored_at_entry=opt.get("ignored_at_entry", ()),
                             shim={"log": os.path.join(work, "fsx.log"), "roots": roots, "plan": plan_str(plan), "sticky_prefix": tmpdir,
                                   "xdev_parent": proj if opt.get("config_dir_on_other_fs") else ""})
        x.exit, x.signal, x.timed_out = r.exit, r.signal, r.timed_out
        x.stdout, x.stderr = r.stdout, r.stderr
        x.trace = r.trace
        for o in x.trace:   # make paths relocatable
            for i, rt in enumerate(roots):
                if o.path.startswith(rt):
                    o.path = "$R%d" % i + o.path[len(rt):]
                if o.path2.startswith(rt):
                    o.path2 = "$R%d" % i + o.path2[len(rt):]
        if opt.get("meta"):
            x.meta_after = {r_: cli.snapshot(r_) for r_ in (proj, tmpdir, os.path.join(work, "cwd"), os.path.join(work, "outside"))}
            x.meta_before = {("$R%d" % roots.index(k)): v for k, v in x.meta_before.items()}
            x.meta_after = {("$R%d" % roots.index(k)): v for k, v in x.meta_after.items()}
        x.src = cli.read_tree(os.path.join(proj, "src"))
        allproj = cli.read_tree(proj)
        x.proj_other = {k: v for k, v in allproj.items() if not k.startswith("src/") and k != "Breadlog.lock"}
        for dp, dn, fn in os.walk(proj):   # symlinks/dirs that appeared are reported through listing
            pass
        x.lock = cli.read_lock(os.path.join(proj, "Breadlog.lock"))
        x.tmp = sorted(os.listdir(tmpdir))
        x.cwd = sorted(os.listdir(os.path.join(work, "cwd")))
        x.outside = cli.read_tree(os.path.join(work, "outside"))
        x.post_check_exit = None
        x.post_check_out = None
        if opt.get("post_check"):
            pc = cli.run_breadlog(os.path.join(proj, "Breadlog.yaml"), check=True, cwd=os.path.join(work, "cwd"),
                                  tmpdir=tmpdir, timeout=30)
            x.post_check_exit = pc.exit if pc.signal is None else -pc.signal
            x.post_check_out = pc.stdout
        x.post_mut_ops = None
        x.post_snap_diff = None
        if opt.get("then_check_monitored"):
            # a --check run on whatever state the (possibly killed) run left behind, under the monitor
            dirs = (proj, tmpdir, os.path.join(work, "cwd"), os.path.join(work, "outside"))
            before = {r_: cli.snapshot(r_) for r_ in dirs}
            pc = cli.run_breadlog(os.path.join(proj, "Breadlog.yaml"), check=True, cwd=os.path.join(work, "cwd"), tmpdir=tmpdir, timeout=30,
                                  shim={"log": os.path.join(work, "fsx2.log"), "roots": roots, "plan": ""})
            after = {r_: cli.snapshot(r_) for r_ in dirs}
            x.post_check_exit = pc.exit if pc.signal is None else -pc.signal
            x.post_mut_ops = [repr(o).replace(work, "$W") for o in pc.trace if o.cls != "log" and (o.cls in ("w", "x") and o.op != "close")]
            x.post_snap_diff = [(r_.replace(work, "$W"), cli.snapshot_diff(before[r_], after[r_])[:3]) for r_ in dirs if before[r_] != after[r_]]
        x.follow = None
        if opt.get("followup"):
            x.follow = _followup(sc, work, proj, tmpdir, opt["followup"])
        if opt.get("tmp_on_disk"):
            shutil.rmtree(tmpdir, ignore_errors=True)
        return x
    finally:
        if opt.get("tmp_form") == "readonly":
            try:
                os.chmod(os.path.join(work, "tmp"), 0o755)
            except OSError:
                pass
        shutil.rmtree(work, ignore_errors=True)


execute.counter = 0


def shorten(content):
    """The developer edit of the follow-up: drop the tail of the file (at least one line, about 40 %)."""
    lines = content.split(b"\n")
    if len(lines) <= 2:
        return content
    keep = max(1, int(len(lines) * 0.6))
    return b"\n".join(lines[:keep]) + b"\n"


def _followup(sc, work, proj, tmpdir, kind):
    """Recovery run: in the very directories the (possibly killed / failed / interrupted) run left behind - leftovers in TMPDIR and the
    project included, same absolute paths - optionally apply a developer edit, then run a fault-free edit. The same sources and lock are
    also materialised in a clean world and edited there. Returns both outcomes for a differential oracle."""
    src_dir = os.path.join(proj, "src")
    # the developer's files are the scenario's; whatever else the first run left in the source directory (a scratch copy beside a source
    # file) is a leftover: it stays where it is, as it is, and does not exist in the clean world
    own = set(sc.source_bytes())
    everything = cli.read_tree(src_dir)
    cur = {rel: c for rel, c in everything.items() if rel in own}
    left_in_src = sorted(rel for rel in everything if rel not in own)
    if kind == "shorten":
        for rel, c in cur.items():
            n = shorten(c)
            if n != c:
                with open(os.path.join(src_dir, rel), "wb") as f:
                    f.write(n)
                cur[rel] = n
    lock_path = os.path.join(proj, "Breadlog.lock")
    lock_bytes = open(lock_path, "rb").read() if os.path.isfile(lock_path) else None
    leftovers = {"tmp": sorted(os.listdir(tmpdir)), "proj": sorted(f for f in os.listdir(proj) if f not in ("src", "Breadlog.yaml", "Breadlog.lock")),
                 "src": left_in_src}
    cwd = os.path.join(work, "cwd")
    rp = cli.run_breadlog(os.path.join(proj, "Breadlog.yaml"), check=False, cwd=cwd, tmpdir=tmpdir, timeout=30)
    p_src = cli.read_tree(src_dir)
    p_lock = cli.read_lock(lock_path)
    # clean world
    clean = os.path.join(work, "clean")
    cproj = os.path.join(clean, "proj")
    os.makedirs(os.path.join(cproj, "src"))
    os.makedirs(os.path.join(clean, "tmp"))
    os.makedirs(os.path.join(clean, "cwd"))
    with open(os.path.join(cproj, "Breadlog.yaml"), "w") as f:
        f.write(sc.config)
    cli.write_tree(os.path.join(cproj, "src"), cur)
    if lock_bytes is not None:
        with open(os.path.join(cproj, "Breadlog.lock"), "wb") as f:
            f.write(lock_bytes)
    rq = cli.run_breadlog(os.path.join(cproj, "Breadlog.yaml"), check=False, cwd=os.path.join(clean, "cwd"), tmpdir=os.path.join(clean, "tmp"), timeout=30)
    q_src = cli.read_tree(os.path.join(cproj, "src"))
    q_lock = cli.read_lock(os.path.join(cproj, "Breadlog.lock"))
    return {"kind": kind, "before": cur, "leftovers": leftovers, "p_exit": rp.exit if rp.signal is None else -rp.signal, "p_src": p_src, "p_lock": p_lock,
            "q_exit": rq.exit if rq.signal is None else -rq.signal, "q_src": q_src, "q_lock": q_lock, "lock_before": cli.read_lock.__call__(lock_path) if False else None,
            "p_panicked": rp.panicked, "p_tmp_after": sorted(os.listdir(tmpdir))}


def norm_trace(x):
    return cli.normalise_trace(x.trace)


def actions_for(op, menu):
    """menu: set of action kinds to generate: 'kill', 'fail', 'short', 'sig'."""
    acts = []
    if "kill" in menu:
        acts += ["kill-before", "kill-after"]
    if "fail" in menu and op.cls in ("r", "w"):
        for e in FAIL_MENU.get(op.op, []):
            acts.append("fail:%d" % e)
    if "logfail" in menu and op.cls == "log":
        acts.append("fail:%d" % errno.EPIPE)      # stdout is a closed pipe (`breadlog ... | head -1`): the logger panics
    if "short" in menu and op.op == "write" and op.cls == "w" and op.len >= 2:
        acts.append("short")
    if "sig" in menu:
        for s in (signal.SIGINT, signal.SIGTERM):
            acts += ["sig-before:%d" % s, "sig-after:%d" % s]
    if "sigb" in menu:
        for s in (signal.SIGINT, signal.SIGTERM):
            acts.append("sig-before:%d" % s)
    return acts


class Explorer:
    def __init__(self, pool_size=None):
        self.base = scratch_dir("fsx")
        self.pool = multiprocessing.Pool(pool_size or NCPU, initializer=_init_worker, initargs=(self.base,))
        self.stats = {"executions": 0, "ops_executed": 0, "determinism_reruns": 0, "scenarios": 0}
        self.end_states = set()

    def close(self):
        self.pool.close()
        self.pool.join()

    def baseline(self, sc, opt, base_plan=()):
        a = execute((sc, list(base_plan), opt))
        b = execute((sc, list(base_plan), opt))
        self.stats["executions"] += 2
        if norm_trace(a) != norm_trace(b):
            # one more attempt, then machinery error
            c = execute((sc, list(base_plan), opt))
            self.stats["determinism_reruns"] += 1
            if norm_trace(c) != norm_trace(a) and norm_trace(c) != norm_trace(b):
                raise MachineryError("scenario %s: fault-free trace is not deterministic" % sc.name)
            if norm_trace(c) == norm_trace(b):
                a = b
        return a

    def explore(self, sc, menu, bound, oracle, opt=None, op_filter=None, second_menu=None, cap=None, base_plan=None):
        """Runs oracle(sc, baseline_exec, exec) on every execution. Returns (baseline, n_exec, capped)."""
        opt = opt or {}
        self.stats["scenarios"] += 1
        base_plan = list(base_plan or [])      # environment conditions (sticky faults) present in every execution, not deviations
        base = self.baseline(sc, opt, base_plan)
        oracle(sc, base, base)
        self._account(base)
        base_norm = norm_trace(base)
        level = [(list(base_plan), base)]
        n_exec = 0
        capped = False
        for depth in range(1, bound + 1):
            plans = []
            this_menu = menu if depth == 1 or second_menu is None else second_menu
            for plan, x in level:
                idx = [k for k, _ in plan if k is not None]
                last = idx[-1] if idx else -1
                for o in x.trace:
                    if o.op == "signal" or o.note.startswith("KILLED"):
                        continue
                    if o.k <= last:
                        continue
                    if op_filter and not op_filter(o, depth, x):
                        continue
                    for a in actions_for(o, this_menu):
                        plans.append(plan + [(o.k, a)])
            if cap is not None and n_exec + len(plans) > cap:
                plans = plans[:max(0, cap - n_exec)]
                capped = True
            nxt = []
            for x in self.pool.imap(execute, [(sc, p, opt) for p in plans], chunksize=4):
                n_exec += 1
                self._account(x)
                # prefix determinism: ops before the first injected index must equal the baseline prefix
                k0 = [k for k, _ in x.plan if k is not None][0]
                if norm_trace_prefix(x, k0) != base_norm[:k0] and depth == 1:
                    x = self._retry(sc, x.plan, opt, base_norm, k0)
                oracle(sc, base, x)
                if depth < bound and x.signal != signal.SIGKILL:
                    nxt.append((x.plan, x))
            level = nxt
            if capped:
                break
        return base, n_exec, capped

    def run_plans(self, sc, plans, opt=None):
        opt = opt or {}
        out = []
        for x in self.pool.imap(execute, [(sc, p, opt) for p in plans], chunksize=2):
            self._account(x)
            out.append(x)
        return out

    def _retry(self, sc, plan, opt, base_norm, k0):
        for _ in range(3):
            self.stats["determinism_reruns"] += 1
            x = execute((sc, plan, opt))
            if norm_trace_prefix(x, k0) == base_norm[:k0]:
                return x
        raise MachineryError("scenario %s plan %s: trace prefix diverges from the baseline persistently" % (sc.name, plan_str(plan)))

    def _account(self, x):
        self.stats["executions"] += 1
        self.stats["ops_executed"] += len(x.trace)
        self.end_states.add((x.terminated(), tuple(sorted((k, hash(v)) for k, v in x.src.items())), str(x.lock), tuple(x.tmp)))


def norm_trace_prefix(x, k0):
    return cli.normalise_trace([o for o in x.trace if o.k < k0])
