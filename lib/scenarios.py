"""Scenario library for engine E1 (DESIGN.md §2.1): small, sharp trees, each forcing one shortcut of the code."""
from fsx import Scenario

A_MISSING = 'fn main() {\n    info!("hello");\n    info!("world {}", 1);\n}\n'
B_COMPLETE = 'fn f() { info!("[ref: 7] x"); }\n'
C_MIXED = 'fn g() {\n    warn!("[ref: 3] have");\n    error!("need one");\n}\n'
ONE = 'fn main() { info!("one"); }\n'


def _multi_chunk_file():
    """A file whose rewrite needs >= 4 write_all calls, with chunks smaller and larger than the first one.
    async-std's write cache takes the capacity of the first write, so "larger/smaller than the buffer" means
    larger/smaller than the first chunk."""
    parts = ['fn a() {\n    info!("first");\n']                    # short first chunk
    parts.append("    // " + "x" * 700 + "\n")                        # a long gap -> chunk larger than the first
    parts.append('    warn!("second {}", 2);\n')
    parts.append('    error!("third");\n')                            # small chunks
    parts.append("    /* " + "y" * 5000 + " */\n")
    parts.append('    info!("fourth");\n}\n')
    return "".join(parts)


def _big_file():
    """> 64 KiB, insertion points spread over the file."""
    out = []
    for i in range(40):
        out.append("// " + ("filler %03d " % i) * 150 + "\n")
        out.append('fn f%d() { info!("statement %d"); }\n' % (i, i))
    return "".join(out)


def s1(check=False):
    return Scenario("S1-one-file", {"a.rs": ONE}, check=check)


def s2(check=False):
    return Scenario("S2-three-files-nolock", {"a.rs": A_MISSING, "b.rs": B_COMPLETE, "c.rs": C_MIXED}, check=check)


def s3(check=False):
    return Scenario("S3-three-files-lock", {"a.rs": A_MISSING, "b.rs": B_COMPLETE, "c.rs": C_MIXED}, check=check, lock=8)


def s4(check=False):
    return Scenario("S4-cache-disabled", {"a.rs": A_MISSING, "b.rs": B_COMPLETE, "c.rs": C_MIXED}, check=check,
                    use_cache=False)


def s5(check=False):
    return Scenario("S5-multi-chunk", {"a.rs": _multi_chunk_file(), "z.rs": ONE}, check=check)


def s5b(check=False):
    return Scenario("S5b-64k", {"big.rs": _big_file()}, check=check)


def s6(check=False):
    return Scenario("S6-structured", {"a.rs": 'fn main() {\n    info!("hello");\n    info!(a = 1; "kv {}", 1);\n}\n',
                                      "b.rs": 'fn f() { info!(ref = 7; "x"); }\n'}, check=check, structured=True)


def s7(check=False):
    return Scenario("S7-unreadable-middle", {"a.rs": ONE, "b.rs": b'fn b() { info!("\xff\xfe bad"); }\n',
                                             "c.rs": 'fn c() { warn!("three"); }\n'}, check=check)


def s8(check=False):
    return Scenario("S8-nothing-missing", {"a.rs": 'fn main() { info!("[ref: 1] one"); }\n', "b.rs": B_COMPLETE},
                    check=check, lock=8)


def s9_last_missing(check=False):
    """Only the last-processed file lacks a reference: an interrupted check that stops early sees nothing."""
    return Scenario("S9-last-file-missing", {"a.rs": 'fn a() { info!("[ref: 1] one"); }\n',
                                             "b.rs": 'fn b() { info!("[ref: 2] two"); }\n',
                                             "c.rs": 'fn c() { info!("[ref: 3] three"); }\n',
                                             "d.rs": 'fn d() { info!("four"); }\n'}, check=check)


def s9_first_missing(check=False):
    """Mirror image of S9 (readdir order is the file system's business): only the first-created file lacks one."""
    return Scenario("S9b-first-file-missing", {"a.rs": 'fn a() { info!("zero"); }\n',
                                               "b.rs": 'fn b() { info!("[ref: 2] two"); }\n',
                                               "c.rs": 'fn c() { info!("[ref: 3] three"); }\n',
                                               "d.rs": 'fn d() { info!("[ref: 4] four"); }\n'}, check=check)


def s10_nine_files(check=False):
    """More files than any small constant a batching scheme would use; alternating missing / complete."""
    files = {}
    for i in range(9):
        files["f%d.rs" % i] = ('fn f%d() { info!("needs %d"); }\n' % (i, i)) if i % 2 == 0 else ('fn f%d() { info!("[ref: %d] has"); }\n' % (i, 100 + i))
    return Scenario("S10-nine-files", files, check=check, lock=200)


def _filler(nbytes):
    line = "// " + "filler " * 12 + "\n"
    return line * (nbytes // len(line) + 1)


def s5c_big_head(check=False):
    """> 64 KiB with the only unreferenced statement at the very top: the last chunk copied through is the whole rest of the file."""
    return Scenario("S5c-big-head", {"head.rs": 'fn top() { info!("only one, at the top"); }\n' + _filler(70_000), "z.rs": ONE}, check=check)


def s5d_big_tail(check=False):
    """> 128 KiB with the only unreferenced statement at the very end: one huge first chunk, a tiny last one."""
    return Scenario("S5d-big-tail", {"tail.rs": _filler(135_000) + 'fn bottom() { info!("only one, at the end"); }\n', "a.rs": ONE}, check=check)


def s11_nested(check=False):
    """Sub-directories: discovery opens and lists several directories, files are spread over three levels."""
    return Scenario("S11-nested-dirs", {"00_top.rs": 'fn t() { info!("top"); }\n', "01_m/in.rs": 'fn i() { warn!("inner"); info!("[ref: 31] has"); }\n',
                                        "01_m/deep/x.rs": 'fn x() { info!("[ref: 40] deep"); }\n', "01_m/deep/y.rs": 'fn y() { error!("deepest"); }\n',
                                        "02_last.rs": 'fn l() { info!("last"); }\n'}, check=check, lock=41)


ALL = {"S11": s11_nested, "S1": s1, "S2": s2, "S3": s3, "S4": s4, "S5": s5, "S5b": s5b, "S6": s6, "S7": s7, "S8": s8, "S9": s9_last_missing, "S9b": s9_first_missing, "S10": s10_nine_files, "S5c": s5c_big_head, "S5d": s5d_big_tail}
