"""Shared infrastructure for all checks: builds, scratch space, evidence, findings, verdict protocol.

Exit codes of a check:  0 = property held on everything explored (known findings are printed)
                        1 = at least one violation that is not a listed known finding
                        2 = machinery problem (never a verdict)
"""
import atexit
import hashlib
import json
import os
import shutil
import subprocess
import sys
import tempfile
import time

VERIF = os.path.dirname(os.path.dirname(os.path.abspath(__file__)))
REPO = os.environ.get("VERIF_REPO", "/repo")
BUILD = os.path.join(VERIF, ".build")
BIN = os.path.join(BUILD, "repo", "release", "breadlog")
SHIM = os.path.join(BUILD, "libfsx.so")
VH_BIN = os.path.join(BUILD, "vh", "release", "vh")
NCPU = os.cpu_count() or 4

CARGO_ENV = dict(os.environ, CARGO_NET_OFFLINE="true")


class MachineryError(Exception):
    pass


def machinery_exit(msg):
    sys.stdout.flush()
    print("MACHINERY-ERROR: %s" % msg, file=sys.stderr)
    sys.stderr.flush()
    try:
        _cleanup()
    finally:
        os._exit(2)


def _run(cmd, **kw):
    return subprocess.run(cmd, stdout=subprocess.PIPE, stderr=subprocess.STDOUT, **kw)


def build_subject():
    """cargo build --release of /repo's current working tree into /verif/.build/repo."""
    os.makedirs(BUILD, exist_ok=True)
    env = dict(CARGO_ENV, CARGO_TARGET_DIR=os.path.join(BUILD, "repo"))
    r = _run(["cargo", "build", "--release", "--offline", "--bin", "breadlog"], cwd=REPO, env=env)
    if r.returncode != 0 or not os.path.exists(BIN):
        machinery_exit("cargo build of %s failed:\n%s" % (REPO, r.stdout.decode("utf-8", "replace")[-4000:]))
    return BIN


def build_shim():
    src = os.path.join(VERIF, "engines", "fsx", "fsx_shim.c")
    if os.path.exists(SHIM) and os.path.getmtime(SHIM) >= os.path.getmtime(src):
        return SHIM
    os.makedirs(BUILD, exist_ok=True)
    tmp = SHIM + ".%d.tmp" % os.getpid()
    r = _run(["gcc", "-O2", "-w", "-fPIC", "-shared", "-o", tmp, src, "-ldl", "-lpthread"])
    if r.returncode != 0:
        machinery_exit("shim build failed:\n%s" % r.stdout.decode("utf-8", "replace"))
    os.replace(tmp, SHIM)
    return SHIM


def build_vh():
    """Build the in-process harness (engine E3) against the subject tree's current sources with the `verif` feature.
    The crate is engines/vh; when VERIF_REPO points somewhere else than /repo (development only: background runs against a
    snapshot) a copy of the crate with the path dependency rewritten is built instead."""
    crate = os.path.join(VERIF, "engines", "vh")
    lock = os.path.join(crate, "Cargo.lock")
    if not os.path.exists(lock):
        machinery_exit("engines/vh/Cargo.lock missing")
    if os.path.realpath(REPO) != "/repo":
        alt = os.path.join(BUILD, "vh-crate")
        shutil.rmtree(alt, ignore_errors=True)
        shutil.copytree(crate, alt)
        toml = open(os.path.join(alt, "Cargo.toml")).read().replace('path = "/repo"', 'path = "%s"' % os.path.realpath(REPO))
        open(os.path.join(alt, "Cargo.toml"), "w").write(toml)
        crate = alt
    env = dict(CARGO_ENV, CARGO_TARGET_DIR=os.path.join(BUILD, "vh"))
    r = _run(["cargo", "build", "--release", "--offline"], cwd=crate, env=env)
    if r.returncode != 0 or not os.path.exists(VH_BIN):
        machinery_exit("cargo build of engines/vh failed:\n%s" % r.stdout.decode("utf-8", "replace")[-6000:])
    return VH_BIN


_scratch_roots = []


def scratch_dir(prefix="vp"):
    base = "/dev/shm" if os.path.isdir("/dev/shm") and os.access("/dev/shm", os.W_OK) else tempfile.gettempdir()
    d = tempfile.mkdtemp(prefix="verif-%s-" % prefix, dir=base)
    _scratch_roots.append((d, os.getpid()))
    return d


def disk_scratch_dir(prefix="vp"):
    """Scratch directory on a filesystem different from /dev/shm (for real cross-device renames)."""
    d = tempfile.mkdtemp(prefix="verif-%s-" % prefix, dir="/var/tmp" if os.path.isdir("/var/tmp") else "/tmp")
    _scratch_roots.append((d, os.getpid()))
    return d


def _cleanup():
    for d, pid in _scratch_roots:
        if pid == os.getpid():
            shutil.rmtree(d, ignore_errors=True)


atexit.register(_cleanup)


def sha(b):
    return hashlib.sha1(b).hexdigest()


def seed():
    try:
        return int(os.environ.get("VERIF_SEED", "0"))
    except ValueError:
        return 0


# ------------------------------------------------------------------------------------------------
# Verdict protocol


class Verdict:
    """Collects violations, matches them against known_findings.json, writes evidence, exits."""

    def __init__(self, prop, tier, level):
        self.prop = prop
        self.tier = tier
        self.level = level
        self.t0 = time.time()
        self.violations = {}  # signature -> dict(count, first detail, replay)
        self.coverage = {"evaluations": 0, "distinct_nontrivial": 0, "rule": "", "samples": [], "exhaustive": True,
                         "subspaces": []}
        self.assumptions = []
        self.notes = []
        self._distinct = set()
        kf = os.path.join(VERIF, "known_findings.json")
        self.known = {}
        if os.path.exists(kf):
            for e in json.load(open(kf)).get("findings", []):
                if e.get("property") == prop and e.get("status") == "known":
                    self.known[e["signature"]] = e

    # -- coverage counters
    def count(self, n=1):
        self.coverage["evaluations"] += n

    def distinct(self, key):
        self._distinct.add(key)

    def sample(self, s, cap=8):
        if len(self.coverage["samples"]) < cap:
            self.coverage["samples"].append(s)

    def subspace(self, name, size, exhaustive=True, **extra):
        d = {"name": name, "size": size, "exhaustive": exhaustive}
        d.update(extra)
        self.coverage["subspaces"].append(d)
        if not exhaustive:
            self.coverage["exhaustive"] = False

    # -- violations
    def violation(self, signature, detail, replay_files=None, replay_cmd=None):
        """signature: stable classifier string; detail: dict/str describing the failing case."""
        v = self.violations.get(signature)
        if v is None:
            v = {"count": 0, "detail": detail, "replay": None}
            self.violations[signature] = v
            v["replay"] = self._write_replay(signature, detail, replay_files, replay_cmd)
        v["count"] += 1

    def _write_replay(self, signature, detail, files, cmd):
        h = sha((self.prop + signature).encode())[:12]
        d = os.path.join(VERIF, "replays", self.prop, h)
        shutil.rmtree(d, ignore_errors=True)
        os.makedirs(d, exist_ok=True)
        with open(os.path.join(d, "case.json"), "w") as f:
            json.dump({"property": self.prop, "signature": signature, "detail": detail}, f, indent=1, default=repr)
        for name, content in (files or {}).items():
            p = os.path.join(d, name)
            os.makedirs(os.path.dirname(p), exist_ok=True)
            if isinstance(content, str):
                content = content.encode("utf-8", "surrogateescape")
            with open(p, "wb") as f:
                f.write(content)
        if cmd:
            p = os.path.join(d, "replay.sh")
            with open(p, "w") as f:
                f.write("#!/bin/sh\n# reproduces the failing case with the plain binary, without the explorer\ncd \"$(dirname \"$0\")\"\n" + cmd + "\n")
            os.chmod(p, 0o755)
        return d

    def finish(self):
        cov = self.coverage
        cov["distinct_nontrivial"] = max(cov.get("distinct_nontrivial", 0), len(self._distinct))
        unknown = {s: v for s, v in self.violations.items() if s not in self.known}
        known_hit = {s: v for s, v in self.violations.items() if s in self.known}
        cov["known_findings_observed"] = sorted(known_hit)
        cov["violation_signatures"] = sorted(unknown)
        ev = {
            "property_id": self.prop,
            "tier": self.tier,
            "seed": seed(),
            "level": self.level,
            "coverage": cov,
            "assumptions": self.assumptions,
            "wall_s": round(time.time() - self.t0, 2),
            "violations": sum(v["count"] for v in unknown.values()),
            "notes": self.notes,
        }
        evdir = os.path.join(VERIF, "evidence") if self.prop.startswith("C") else os.path.join(BUILD, "selftest")
        os.makedirs(evdir, exist_ok=True)
        path = os.path.join(evdir, "%s.json" % self.prop)
        tmp = path + ".tmp.%d" % os.getpid()
        with open(tmp, "w") as f:
            json.dump(ev, f, indent=1, default=repr)
            f.write("\n")
        os.replace(tmp, path)
        for s, v in sorted(known_hit.items()):
            print("KNOWN-FINDING: property=%s %s (%d case(s); e.g. %s)" % (self.prop, s, v["count"], _short(v["detail"])))
        for s, v in sorted(unknown.items()):
            print("VIOLATION property=%s replay=%s" % (self.prop, v["replay"]))
            print("  signature=%s cases=%d e.g. %s" % (s, v["count"], _short(v["detail"])))
        print("%s %s: evaluations=%d distinct=%d exhaustive=%s violations=%d known=%d wall=%.1fs" % (
            self.prop, self.tier, cov["evaluations"], cov["distinct_nontrivial"], cov["exhaustive"],
            len(unknown), len(known_hit), time.time() - self.t0))
        sys.stdout.flush()
        return 1 if unknown else 0


def _short(d, n=300):
    s = d if isinstance(d, str) else json.dumps(d, default=repr, ensure_ascii=False)
    return s if len(s) <= n else s[:n] + "…"
