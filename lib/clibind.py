"""E3 <-> CLI binding (DESIGN.md §2.4): the same generated cases, one per file, through the shipped binary.

Asserts that `--check` report positions and edit-run insertion offsets are exactly those of the in-process entries, so
that conclusions drawn at parser level in the large products transfer to the program users run."""
import os
import shutil

import cli
import gen
import vh
from vcommon import scratch_dir, NCPU
import multiprocessing


def _run_tree(args):
    """One tree = all cases of one configuration. Returns list of failure dicts."""
    cfg_idx, cases, ents, work = args
    proj = os.path.join(work, "t%d" % cfg_idx)
    os.makedirs(os.path.join(proj, "src"))
    ms, st = cfg_idx // 2, cfg_idx % 2 == 1
    with open(os.path.join(proj, "Breadlog.yaml"), "w") as f:
        f.write(cli.config_yaml("./src", structured=st, macros=gen.MACRO_SETS[ms], use_cache=False))
    names = {}
    for i, (ci, code, exp, label) in enumerate(cases):
        n = "f%06d.rs" % i
        names[n] = i
        with open(os.path.join(proj, "src", n), "wb") as f:
            f.write(code.encode("utf-8"))
    fails = []
    tmp = os.path.join(work, "tmp%d" % cfg_idx)
    os.makedirs(tmp)
    chk = cli.run_breadlog(os.path.join(proj, "Breadlog.yaml"), check=True, cwd=work, tmpdir=tmp, timeout=600)
    if chk.panicked or chk.timed_out:
        return [{"class": "cli-crash", "detail": "--check crashed on a batch whose files all parse in-process: %r %s" % (chk, chk.stderr[-300:]), "label": None, "code": ""}]
    rep = cli.Report(chk.stdout, names=list(names), src=os.path.join(proj, "src"), err=chk.stderr)
    by_file = {}
    for fn, l, c in rep.missing:
        by_file.setdefault(os.path.basename(fn), []).append((l, c))
    unusable_by_file = {}
    for fn, l, c in rep.unusable:
        unusable_by_file.setdefault(os.path.basename(fn), []).append((l, c))
    ed = cli.run_breadlog(os.path.join(proj, "Breadlog.yaml"), check=False, cwd=work, tmpdir=tmp, timeout=600)
    if ed.panicked or ed.timed_out:
        return [{"class": "cli-crash", "detail": "edit run crashed: %r %s" % (ed, ed.stderr[-300:]), "label": None, "code": ""}]
    edit_failed_range = ed.exit != 0 and any("4294967295" in c[1] for c in cases)
    total_missing = 0
    for n, i in names.items():
        ci, code, exp, label = cases[i]
        b = code.encode("utf-8")
        missing = [e for e in ents[i] if e[3] is None and e[5]]
        total_missing += len(missing)
        want_pos = sorted((e[1], e[2]) for e in missing)
        got_pos = sorted(by_file.get(n, []))
        if want_pos != got_pos:
            fails.append({"class": "check-report", "detail": "in-process missing entries at %r, --check reported %r" % (want_pos, got_pos),
                          "label": label, "code": code})
            continue
        want_un = sorted((e[1], e[2]) for e in ents[i] if e[3] is None and not e[5])
        if want_un != sorted(unusable_by_file.get(n, [])):
            fails.append({"class": "check-unusable-report", "detail": "in-process unusable entries at %r, --check warned about %r" % (
                want_un, sorted(unusable_by_file.get(n, []))), "label": label, "code": code})
            continue
        if edit_failed_range:
            continue       # range exhausted: nothing may be inserted; C01 judges that
        new = open(os.path.join(proj, "src", n), "rb").read()
        strip = cli.token_strip(b, new)
        if strip is None:
            fails.append({"class": "edit-not-token-only", "detail": "edited file is not original + tokens: %r" % new[:200], "label": label, "code": code})
            continue
        want_off = [e[0] for e in missing]
        got_off = [o for o, _ in strip]
        if want_off != got_off:
            fails.append({"class": "edit-offsets", "detail": "in-process insertion offsets %r, edit run inserted at %r" % (want_off, got_off),
                          "label": label, "code": code})
            continue
        for e, (o, tok) in zip(missing, strip):
            tid = cli.token_id(tok)
            # (the in-process harness renders the insertion with a small probe ID; a key-value ID above i32::MAX carries its type)
            want_tok = e[6].replace(str(gen.PROBE), str(tid) + ("u32" if tid > 2 ** 31 - 1 and not e[6].startswith("[ref") else ""))
            if tok.decode() != want_tok:
                fails.append({"class": "edit-token", "detail": "expected token %r, got %r" % (want_tok, tok), "label": label, "code": code})
    if rep.total is not None and rep.total != total_missing:
        fails.append({"class": "check-total", "detail": "grand total %r != %d" % (rep.total, total_missing), "label": None, "code": ""})
    if ed.exit == 0 and total_missing and cli.Report(ed.stdout).inserted != total_missing:
        fails.append({"class": "edit-count", "detail": "printed %r != %d" % (cli.Report(ed.stdout).inserted, total_missing), "label": None, "code": ""})
    shutil.rmtree(proj, ignore_errors=True)
    return fails


def bind(tuples, build_one, v, prefix="binding"):
    cases = [build_one(t) for t in tuples]
    res = vh.eval_cases([(c[0], c[1]) for c in cases])
    by_cfg = {}
    skipped = 0
    for c, r in zip(cases, res):
        if r[0] != "ok":
            skipped += 1
            continue
        # files that already carry the largest ID exhaust the range for the whole tree (the run then fails, by design):
        # they get a tree of their own so that the other cases are still edited
        key = c[0] + (100 if "4294967295" in c[1] else 0)
        by_cfg.setdefault(key, ([], []))
        by_cfg[key][0].append(c)
        by_cfg[key][1].append(r[1])
    work = scratch_dir("bind")
    jobs = []
    for ci, (cs, es) in sorted(by_cfg.items()):
        # split large trees so that they run in parallel
        step = 2500
        for k in range(0, len(cs), step):
            jobs.append((ci * 1000 + k // step, cs[k:k + step], es[k:k + step], work))
    # cfg index is recovered inside _run_tree by integer division, so encode it back
    jobs = [((j[0] // 1000) % 100, j[1], j[2], os.path.join(work, "j%d" % n)) for n, j in enumerate(jobs)]
    for j in jobs:
        os.makedirs(j[3])
    nf = 0
    with multiprocessing.Pool(min(NCPU, max(1, len(jobs)))) as p:
        for fails in p.imap_unordered(_run_tree, jobs):
            for f in fails:
                nf += 1
                v.violation("%s:%s" % (prefix, f["class"]), {"file": f["code"], "detail": f["detail"]},
                            replay_files={"case.rs": f["code"]})
    v.count(len(cases) - skipped)
    if skipped:
        v.notes.append("%s: %d case(s) not sent through the CLI because the parser panics on them in-process (C17's business)" % (prefix, skipped))
    shutil.rmtree(work, ignore_errors=True)
    return len(cases) - skipped, nf
